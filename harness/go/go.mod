module verifharness

go 1.19

require github.com/virus-evolution/gofasta v0.0.0

require (
	github.com/biogo/hts v1.2.1 // indirect
	golang.org/x/exp v0.0.0-20230116083435-1de6713980de // indirect
)

replace github.com/virus-evolution/gofasta => /repo
