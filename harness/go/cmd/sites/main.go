// sites scans the anchored gofasta packages with go/ast and prints, as Gallina (coq/gen/WriteSites.v), every function
// that writes to an output destination (an io.Writer / *os.File parameter, a local *os.File, or os.Stdout) with the
// ordered list of its write call sites, each flagged checked (the error result is assigned and the next statement
// tests it and returns or sends it on a channel) or dropped (expression statement, or error assigned to _).
// The scan is structural, not by function name.  usage: sites <repo root>
package main

import (
	"fmt"
	"go/ast"
	"go/parser"
	"go/token"
	"os"
	"path/filepath"
	"sort"
	"strings"
)

type site struct {
	line    int
	call    string
	checked bool
}

func isWriterType(e ast.Expr) bool {
	switch t := e.(type) {
	case *ast.SelectorExpr:
		if x, ok := t.X.(*ast.Ident); ok {
			return x.Name == "io" && t.Sel.Name == "Writer"
		}
	case *ast.StarExpr:
		if s, ok := t.X.(*ast.SelectorExpr); ok {
			if x, ok := s.X.(*ast.Ident); ok {
				return x.Name == "os" && s.Sel.Name == "File"
			}
		}
	}
	return false
}

func isStdout(e ast.Expr) bool {
	if s, ok := e.(*ast.SelectorExpr); ok {
		if x, ok := s.X.(*ast.Ident); ok {
			return x.Name == "os" && s.Sel.Name == "Stdout"
		}
	}
	return false
}

type scanner struct {
	fset    *token.FileSet
	writers map[string]bool
	sites   []site
}

func (s *scanner) isDest(e ast.Expr) bool {
	if isStdout(e) {
		return true
	}
	if id, ok := e.(*ast.Ident); ok {
		return s.writers[id.Name]
	}
	return false
}

// writeCall returns a description if call writes to a destination
func (s *scanner) writeCall(call *ast.CallExpr) (string, bool) {
	sel, ok := call.Fun.(*ast.SelectorExpr)
	if !ok {
		return "", false
	}
	if (sel.Sel.Name == "Write" || sel.Sel.Name == "WriteString") && s.isDest(sel.X) {
		return sel.Sel.Name, true
	}
	if x, ok := sel.X.(*ast.Ident); ok && x.Name == "fmt" && strings.HasPrefix(sel.Sel.Name, "Fprint") && len(call.Args) > 0 && s.isDest(call.Args[0]) {
		return "fmt." + sel.Sel.Name, true
	}
	return "", false
}

func errTestedAndPropagated(st ast.Stmt, errName string) bool {
	ifs, ok := st.(*ast.IfStmt)
	if !ok {
		return false
	}
	be, ok := ifs.Cond.(*ast.BinaryExpr)
	if !ok || be.Op != token.NEQ {
		return false
	}
	x, ok1 := be.X.(*ast.Ident)
	y, ok2 := be.Y.(*ast.Ident)
	if !ok1 || !ok2 || x.Name != errName || y.Name != "nil" {
		return false
	}
	prop := false
	ast.Inspect(ifs.Body, func(n ast.Node) bool {
		switch n.(type) {
		case *ast.ReturnStmt, *ast.SendStmt:
			prop = true
		}
		return true
	})
	return prop
}

func (s *scanner) stmts(list []ast.Stmt, follow ast.Stmt) {
	for i, st := range list {
		next := follow
		if i+1 < len(list) {
			next = list[i+1]
		}
		switch t := st.(type) {
		case *ast.ExprStmt:
			if call, ok := t.X.(*ast.CallExpr); ok {
				if d, ok := s.writeCall(call); ok {
					s.sites = append(s.sites, site{s.fset.Position(call.Pos()).Line, d, false})
				}
			}
		case *ast.AssignStmt:
			// a local *os.File destination
			if len(t.Rhs) == 1 {
				if call, ok := t.Rhs[0].(*ast.CallExpr); ok {
					if sel, ok := call.Fun.(*ast.SelectorExpr); ok {
						if x, ok := sel.X.(*ast.Ident); ok && x.Name == "os" && (sel.Sel.Name == "Create" || sel.Sel.Name == "OpenFile") {
							if id, ok := t.Lhs[0].(*ast.Ident); ok {
								s.writers[id.Name] = true
							}
						}
					}
					if d, ok := s.writeCall(call); ok {
						checked := false
						if len(t.Lhs) >= 1 {
							if id, ok := t.Lhs[len(t.Lhs)-1].(*ast.Ident); ok && id.Name != "_" && next != nil {
								checked = errTestedAndPropagated(next, id.Name)
							}
						}
						s.sites = append(s.sites, site{s.fset.Position(call.Pos()).Line, d, checked})
					}
				}
			}
		case *ast.IfStmt:
			if as, ok := t.Init.(*ast.AssignStmt); ok && len(as.Rhs) == 1 {
				if call, ok := as.Rhs[0].(*ast.CallExpr); ok {
					if d, ok := s.writeCall(call); ok {
						checked := false
						if id, ok := as.Lhs[len(as.Lhs)-1].(*ast.Ident); ok && id.Name != "_" {
							tmp := *t
							tmp.Init = nil
							checked = errTestedAndPropagated(&tmp, id.Name)
						}
						s.sites = append(s.sites, site{s.fset.Position(call.Pos()).Line, d, checked})
					}
				}
			}
			s.stmts(t.Body.List, nil)
			if t.Else != nil {
				s.stmts([]ast.Stmt{t.Else}, nil)
			}
		case *ast.BlockStmt:
			s.stmts(t.List, next)
		case *ast.ForStmt:
			s.stmts(t.Body.List, nil)
		case *ast.RangeStmt:
			s.stmts(t.Body.List, nil)
		case *ast.SwitchStmt:
			// the statement after the switch follows the last statement of every clause
			for _, cl := range t.Body.List {
				if cc, ok := cl.(*ast.CaseClause); ok {
					s.stmts(cc.Body, next)
				}
			}
		case *ast.TypeSwitchStmt:
			for _, cl := range t.Body.List {
				if cc, ok := cl.(*ast.CaseClause); ok {
					s.stmts(cc.Body, next)
				}
			}
		case *ast.SelectStmt:
			for _, cl := range t.Body.List {
				if cc, ok := cl.(*ast.CommClause); ok {
					s.stmts(cc.Body, nil)
				}
			}
		case *ast.GoStmt:
			if fl, ok := t.Call.Fun.(*ast.FuncLit); ok {
				s.stmts(fl.Body.List, nil)
			}
		case *ast.DeferStmt:
		case *ast.LabeledStmt:
			s.stmts([]ast.Stmt{t.Stmt}, next)
		}
	}
}

func main() {
	root := os.Args[1]
	pkgs := []string{"closest", "updown", "snps", "variants", "fastaio", "sam"}
	type fn struct {
		name  string
		sites []site
	}
	var fns []fn
	for _, p := range pkgs {
		files, _ := filepath.Glob(filepath.Join(root, "pkg", p, "*.go"))
		sort.Strings(files)
		for _, f := range files {
			if strings.HasSuffix(f, "_test.go") || strings.HasSuffix(f, "verif_export.go") || strings.HasSuffix(f, "indels.go") {
				continue // tests, harness hooks, and the deprecated `sam indels` (out of scope)
			}
			fset := token.NewFileSet()
			af, err := parser.ParseFile(fset, f, nil, 0)
			if err != nil {
				fmt.Fprintln(os.Stderr, err)
				os.Exit(1)
			}
			for _, d := range af.Decls {
				fd, ok := d.(*ast.FuncDecl)
				if !ok || fd.Body == nil {
					continue
				}
				sc := &scanner{fset: fset, writers: map[string]bool{}}
				for _, prm := range fd.Type.Params.List {
					if isWriterType(prm.Type) {
						for _, n := range prm.Names {
							sc.writers[n.Name] = true
						}
					}
				}
				sc.stmts(fd.Body.List, nil)
				if len(sc.sites) > 0 {
					fns = append(fns, fn{p + "." + fd.Name.Name, sc.sites})
				}
			}
		}
	}
	fmt.Println("(* GENERATED by harness/go/cmd/sites from the current /repo tree: do not edit *)")
	fmt.Println("From Coq Require Import List String.\nImport ListNotations.\nOpen Scope string_scope.")
	fmt.Println("(* function, then per write call site in source order: (line, call, checked?) *)")
	fmt.Println("Definition write_sites : list (string * list (nat * string * bool)) := [")
	for i, f := range fns {
		items := []string{}
		for _, s := range f.sites {
			items = append(items, fmt.Sprintf("(%d, \"%s\", %t)", s.line, s.call, s.checked))
		}
		sep := ";"
		if i == len(fns)-1 {
			sep = ""
		}
		fmt.Printf("  (\"%s\", [%s])%s\n", f.name, strings.Join(items, "; "), sep)
	}
	fmt.Println("].")
}
