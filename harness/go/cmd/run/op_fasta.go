package main

import (
	"bytes"
	"fmt"
	"strconv"

	"github.com/virus-evolution/gofasta/pkg/fastaio"
	"github.com/virus-evolution/gofasta/pkg/variants"
)

func serField(b *bytes.Buffer, s []byte) {
	b.WriteString(strconv.Itoa(len(s)))
	b.WriteByte(':')
	b.Write(s)
}

func serRec(b *bytes.Buffer, idx int, id, desc string, seq []byte) {
	b.WriteString(strconv.Itoa(idx))
	b.WriteByte(';')
	serField(b, []byte(id))
	serField(b, []byte(desc))
	serField(b, seq)
}

func init() {
	ops["read_fasta"] = func(c Case) ([]byte, map[string]interface{}, error) {
		in := b64(c, "file")
		hard := boolean(c, "hard")
		var out bytes.Buffer
		switch str(c, "reader") {
		case "plain":
			ch := make(chan fastaio.FastaRecord)
			cErr := make(chan error)
			cDone := make(chan bool)
			go fastaio.ReadAlignment(bytes.NewReader(in), ch, cErr, cDone)
			for {
				select {
				case r := <-ch:
					serRec(&out, r.Idx, r.ID, r.Description, []byte(r.Seq))
					out.WriteByte('\n')
				case err := <-cErr:
					return out.Bytes(), nil, err
				case <-cDone:
					return out.Bytes(), nil, nil
				}
			}
		case "enc", "score":
			ch := make(chan fastaio.EncodedFastaRecord)
			cErr := make(chan error)
			cDone := make(chan bool)
			score := str(c, "reader") == "score"
			if score {
				go fastaio.ReadEncodeScoreAlignment(bytes.NewReader(in), hard, ch, cErr, cDone)
			} else {
				go fastaio.ReadEncodeAlignment(bytes.NewReader(in), hard, ch, cErr, cDone)
			}
			for {
				select {
				case r := <-ch:
					serRec(&out, r.Idx, r.ID, r.Description, r.Seq)
					if score {
						fmt.Fprintf(&out, "%d;%d;%d;%d;%d", r.Score, r.Count_A, r.Count_T, r.Count_G, r.Count_C)
					}
					out.WriteByte('\n')
				case err := <-cErr:
					return out.Bytes(), nil, err
				case <-cDone:
					return out.Bytes(), nil, nil
				}
			}
		case "list":
			recs, err := fastaio.ReadEncodeAlignmentToList(bytes.NewReader(in), hard)
			if err != nil {
				return nil, nil, err
			}
			for _, r := range recs {
				serRec(&out, r.Idx, r.ID, r.Description, r.Seq)
				out.WriteByte('\n')
			}
			return out.Bytes(), nil, nil
		case "findref":
			r, err := variants.VerifFindReference(bytes.NewReader(in), string(b64(c, "refid")))
			if err != nil {
				return nil, nil, err
			}
			serRec(&out, r.Idx, r.ID, r.Description, r.Seq)
			out.WriteByte('\n')
			return out.Bytes(), nil, nil
		}
		return nil, nil, fmt.Errorf("unknown reader")
	}
}
