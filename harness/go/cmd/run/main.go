// run reads one JSON case per line on stdin, calls the gofasta code it names, and prints one
// JSON observation per line.  Byte payloads travel base64-encoded.  A panic in the calling
// goroutine is caught and reported as status "panic"; a panic in a goroutine started by the
// library kills the process, which the Python side detects (no result line for that case)
// and reports as "crash".  A case that does not finish within its timeout is "hang".
package main

import (
	"bufio"
	"encoding/base64"
	"encoding/json"
	"fmt"
	"os"
	"time"
)

type Case map[string]interface{}

type Obs struct {
	ID     int                    `json:"id"`
	Status string                 `json:"status"` // ok | err | panic | hang
	Out    string                 `json:"out"`    // base64
	Err    string                 `json:"err,omitempty"`
	Extra  map[string]interface{} `json:"extra,omitempty"`
}

type opFunc func(c Case) (out []byte, extra map[string]interface{}, err error)

var ops = map[string]opFunc{}

func b64(c Case, k string) []byte {
	s, ok := c[k].(string)
	if !ok {
		return nil
	}
	b, err := base64.StdEncoding.DecodeString(s)
	if err != nil {
		panic("bad base64 in case field " + k)
	}
	return b
}
func encodeB64(b []byte) string { return base64.StdEncoding.EncodeToString(b) }

func str(c Case, k string) string {
	s, _ := c[k].(string)
	return s
}
func boolean(c Case, k string) bool {
	b, _ := c[k].(bool)
	return b
}
func integer(c Case, k string, d int) int {
	f, ok := c[k].(float64)
	if !ok {
		return d
	}
	return int(f)
}
func float(c Case, k string, d float64) float64 {
	f, ok := c[k].(float64)
	if !ok {
		return d
	}
	return f
}

func runOne(c Case) Obs {
	id := integer(c, "id", -1)
	op := str(c, "op")
	f, ok := ops[op]
	if !ok {
		return Obs{ID: id, Status: "err", Err: "unknown op " + op}
	}
	timeout := time.Duration(integer(c, "timeout_ms", 10000)) * time.Millisecond
	done := make(chan Obs, 1)
	go func() {
		defer func() {
			if r := recover(); r != nil {
				done <- Obs{ID: id, Status: "panic", Err: fmt.Sprint(r)}
			}
		}()
		out, extra, err := f(c)
		o := Obs{ID: id, Status: "ok", Out: base64.StdEncoding.EncodeToString(out), Extra: extra}
		if err != nil {
			o.Status = "err"
			o.Err = err.Error()
		}
		done <- o
	}()
	select {
	case o := <-done:
		return o
	case <-time.After(timeout):
		return Obs{ID: id, Status: "hang"}
	}
}

func main() {
	in := bufio.NewReaderSize(os.Stdin, 1<<20)
	w := bufio.NewWriter(os.Stdout)
	dec := json.NewDecoder(in)
	for {
		var c Case
		if err := dec.Decode(&c); err != nil {
			break
		}
		fmt.Fprintf(os.Stderr, "BEGIN %d\n", integer(c, "id", -1))
		o := runOne(c)
		b, _ := json.Marshal(o)
		w.Write(b)
		w.WriteByte('\n')
		w.Flush()
	}
}
