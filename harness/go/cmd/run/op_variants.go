package main

import (
	"bytes"
	"errors"

	"github.com/virus-evolution/gofasta/pkg/encoding"
	"github.com/virus-evolution/gofasta/pkg/fastaio"
	"github.com/virus-evolution/gofasta/pkg/genbank"
	"github.com/virus-evolution/gofasta/pkg/gff"
	"github.com/virus-evolution/gofasta/pkg/variants"
)

func regionsJSON(rs []variants.Region) []interface{} {
	out := []interface{}{}
	for _, r := range rs {
		ps := []interface{}{}
		for _, p := range r.Positions {
			ps = append(ps, p)
		}
		out = append(out, map[string]interface{}{"name": r.Name, "strand": r.Strand, "positions": ps,
			"translation": r.Translation, "start": r.Start, "stop": r.Stop})
	}
	return out
}

// annotationRegions parses the annotation with the real parsers and returns the regions, the intergenic list
// and the reference sequence carried by the annotation (encoded), as variants.Variants would compute them.
func annotationRegions(anno []byte, suffix string, ref fastaio.EncodedFastaRecord) ([]variants.Region, []int, fastaio.EncodedFastaRecord, error) {
	EA := encoding.MakeEncodingArray()
	switch suffix {
	case "gb":
		gb, err := genbank.ReadGenBank(bytes.NewReader(anno))
		if err != nil {
			return nil, nil, ref, err
		}
		if len(ref.Seq) == 0 {
			enc := make([]byte, len(gb.ORIGIN))
			for i := range gb.ORIGIN {
				enc[i] = EA[gb.ORIGIN[i]]
			}
			ref = fastaio.EncodedFastaRecord{ID: "annotation_fasta", Seq: enc}
		}
		rs, inter, err := variants.RegionsFromGenbank(gb, len(ref.Decode().Degap().Seq))
		return rs, inter, ref, err
	case "gff":
		g, err := gff.ReadGFF(bytes.NewReader(anno))
		if err != nil {
			return nil, nil, ref, err
		}
		if len(ref.Seq) == 0 {
			if len(g.FASTA) != 1 {
				return nil, nil, ref, errors.New("gff FASTA")
			}
			for _, v := range g.FASTA {
				enc := make([]byte, len(v.Seq))
				for i := range v.Seq {
					enc[i] = EA[v.Seq[i]]
				}
				ref = fastaio.EncodedFastaRecord{ID: "annotation_fasta", Seq: enc}
			}
		}
		rs, inter, err := variants.RegionsFromGFF(g, ref.Decode().Degap().Seq)
		return rs, inter, ref, err
	}
	return nil, nil, ref, errors.New("suffix")
}

func init() {
	ops["variants"] = func(c Case) (out []byte, extra map[string]interface{}, err error) {
		msa, anno := b64(c, "msa"), b64(c, "anno")
		refID := str(c, "refid")
		suffix := str(c, "suffix")
		extra = map[string]interface{}{}
		// what the command will use, recomputed with the same exported building blocks (for the model's input)
		func() {
			defer func() { recover() }()
			var ref fastaio.EncodedFastaRecord
			if refID != "" {
				r, e := variants.VerifFindReference(bytes.NewReader(msa), refID)
				if e != nil {
					return
				}
				ref = r
			}
			rs, inter, ref2, e := annotationRegions(anno, suffix, ref)
			if e != nil {
				extra["regions_error"] = e.Error()
				return
			}
			extra["regions"] = regionsJSON(rs)
			is := []interface{}{}
			for _, p := range inter {
				is = append(is, p)
			}
			extra["inter"] = is
			extra["ref"] = encodeB64(ref2.Seq)
			extra["refid"] = ref2.ID
		}()
		var buf bytes.Buffer
		err = variants.Variants(bytes.NewReader(msa), boolean(c, "stdin"), refID, bytes.NewReader(anno), suffix, &buf,
			integer(c, "start", -1), integer(c, "end", -1), boolean(c, "aggregate"), float(c, "threshold", 0),
			boolean(c, "append_snps"), integer(c, "threads", 1))
		return buf.Bytes(), extra, err
	}
}
