package main

import (
	"bytes"
	"sort"
	"strconv"
	"strings"

	"github.com/virus-evolution/gofasta/pkg/genbank"
	"github.com/virus-evolution/gofasta/pkg/gff"
)

// a whole annotation file through genbank.ReadGenBank / gff.ReadGFF: everything a consumer can read from the result
func init() {
	w := func(sb *strings.Builder, x string) { sb.WriteString(strconv.Itoa(len(x)) + ":" + x) }
	ops["gbfile"] = func(c Case) ([]byte, map[string]interface{}, error) {
		gb, err := genbank.ReadGenBank(bytes.NewReader(b64(c, "file")))
		if err != nil {
			return nil, nil, err
		}
		var sb strings.Builder
		sb.WriteString("F")
		if gb.FEATURES == nil {
			sb.WriteString("-")
		}
		for _, f := range gb.FEATURES {
			sb.WriteString("#")
			w(&sb, f.Feature)
			w(&sb, f.Location.Representation)
			if f.Info == nil {
				sb.WriteString("nil")
				continue
			}
			keys := make([]string, 0)
			for k := range f.Info {
				keys = append(keys, k)
			}
			sort.Strings(keys)
			for _, k := range keys {
				sb.WriteString("|")
				w(&sb, k)
				w(&sb, f.Info[k])
			}
		}
		sb.WriteString("O")
		if gb.ORIGIN == nil {
			sb.WriteString("-")
		} else {
			w(&sb, string(gb.ORIGIN))
		}
		return []byte(sb.String()), nil, nil
	}
	ops["gfffile"] = func(c Case) ([]byte, map[string]interface{}, error) {
		g, err := gff.ReadGFF(bytes.NewReader(b64(c, "file")))
		if err != nil {
			return nil, nil, err
		}
		var sb strings.Builder
		sb.WriteString("V")
		w(&sb, g.GFF_version)
		sb.WriteString("R")
		rk := make([]string, 0)
		for k := range g.SequenceRegions {
			rk = append(rk, k)
		}
		sort.Strings(rk)
		for _, k := range rk {
			w(&sb, k)
			w(&sb, strconv.Itoa(g.SequenceRegions[k].Start))
			w(&sb, strconv.Itoa(g.SequenceRegions[k].End))
		}
		sb.WriteString("F")
		for _, f := range g.Features {
			sb.WriteString("#")
			for _, x := range []string{f.Seqid, f.Source, f.Type, strconv.Itoa(f.Start), strconv.Itoa(f.End), f.Score, f.Strand, strconv.Itoa(f.Phase)} {
				w(&sb, x)
			}
			keys := make([]string, 0)
			for k := range f.Attributes {
				keys = append(keys, k)
			}
			sort.Strings(keys)
			for _, k := range keys {
				sb.WriteString("|")
				w(&sb, k)
				for _, v := range f.Attributes[k] {
					sb.WriteString(",")
					w(&sb, v)
				}
			}
		}
		sb.WriteString("A")
		if g.FASTA == nil {
			sb.WriteString("-")
		} else {
			ids := make([]string, 0)
			for k := range g.FASTA {
				ids = append(ids, k)
			}
			sort.Strings(ids)
			for _, k := range ids {
				w(&sb, k)
				w(&sb, g.FASTA[k].Seq)
			}
		}
		return []byte(sb.String()), nil, nil
	}
}
