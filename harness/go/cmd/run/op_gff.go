package main

import (
	"bytes"
	"sort"
	"strconv"
	"strings"

	"github.com/virus-evolution/gofasta/pkg/gff"
)

// one feature row through gff.ReadGFF: the parsed fields, attributes sorted by tag
func init() {
	ops["gffline"] = func(c Case) ([]byte, map[string]interface{}, error) {
		in := append([]byte("##gff-version 3\n"), b64(c, "line")...)
		in = append(in, '\n')
		g, err := gff.ReadGFF(bytes.NewReader(in))
		if err != nil {
			return nil, nil, err
		}
		if len(g.Features) != 1 {
			return []byte("features=" + strconv.Itoa(len(g.Features))), nil, nil
		}
		f := g.Features[0]
		keys := make([]string, 0)
		for k := range f.Attributes {
			keys = append(keys, k)
		}
		sort.Strings(keys)
		var sb strings.Builder
		for _, x := range []string{f.Seqid, f.Source, f.Type, strconv.Itoa(f.Start), strconv.Itoa(f.End), f.Score, f.Strand, strconv.Itoa(f.Phase)} {
			sb.WriteString(strconv.Itoa(len(x)) + ":" + x)
		}
		for _, k := range keys {
			sb.WriteString("|" + strconv.Itoa(len(k)) + ":" + k)
			for _, v := range f.Attributes[k] {
				sb.WriteString("," + strconv.Itoa(len(v)) + ":" + v)
			}
		}
		return []byte(sb.String()), nil, nil
	}
}
