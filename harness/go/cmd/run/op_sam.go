package main

import (
	"bytes"
	"io"
	"os"
	"path/filepath"
	"testing/iotest"

	"github.com/virus-evolution/gofasta/pkg/fastaio"
	"github.com/virus-evolution/gofasta/pkg/sam"
)

func init() {
	ops["toma"] = func(c Case) ([]byte, map[string]interface{}, error) {
		var out bytes.Buffer
		var in io.Reader = bytes.NewReader(b64(c, "sam"))
		switch str(c, "reader") {
		case "dataerr": // the last bytes arrive together with io.EOF, as compress/gzip and network readers deliver them
			in = iotest.DataErrReader(in)
		case "onebyte":
			in = iotest.OneByteReader(in)
		case "half":
			in = iotest.HalfReader(in)
		}
		err := sam.ToMultiAlign(in, &out, integer(c, "wrap", 0), integer(c, "start", -1),
			integer(c, "end", -1), boolean(c, "pad"), integer(c, "threads", 1))
		return out.Bytes(), nil, err
	}
}

func init() {
	// sam toPairAlign into a scratch directory; returns the files of the named queries, in the order given
	ops["topa"] = func(c Case) ([]byte, map[string]interface{}, error) {
		dir, err := os.MkdirTemp("", "verif-topa-")
		if err != nil {
			return nil, nil, err
		}
		defer os.RemoveAll(dir)
		err = sam.ToPairAlign(bytes.NewReader(b64(c, "sam")), bytes.NewReader(b64(c, "ref")), dir, integer(c, "wrap", 0),
			integer(c, "start", -1), integer(c, "end", -1), boolean(c, "omit_ref"), boolean(c, "omit_ins"), integer(c, "threads", 1))
		if err != nil {
			return nil, nil, err
		}
		var out bytes.Buffer
		names, _ := c["files"].([]interface{})
		for _, n := range names {
			name := n.(string)
			b, e := os.ReadFile(filepath.Join(dir, name))
			if e != nil {
				return out.Bytes(), nil, e
			}
			out.WriteString("==" + name + "==\n")
			out.Write(b)
		}
		ents, _ := os.ReadDir(dir)
		return out.Bytes(), map[string]interface{}{"nfiles": len(ents)}, nil
	}
}

func init() {
	ops["samvariants"] = func(c Case) ([]byte, map[string]interface{}, error) {
		samb, refb, anno := b64(c, "sam"), b64(c, "ref"), b64(c, "anno")
		refFromFile := boolean(c, "ref_from_file")
		suffix := str(c, "suffix")
		extra := map[string]interface{}{}
		func() {
			defer func() { recover() }()
			var ref fastaio.EncodedFastaRecord
			if refFromFile {
				refs, e := fastaio.ReadEncodeAlignmentToList(bytes.NewReader(refb), false)
				if e != nil || len(refs) != 1 {
					return
				}
				ref = refs[0]
			}
			rs, inter, ref2, e := annotationRegions(anno, suffix, ref)
			if e != nil {
				extra["regions_error"] = e.Error()
				return
			}
			extra["regions"] = regionsJSON(rs)
			is := []interface{}{}
			for _, p := range inter {
				is = append(is, p)
			}
			extra["inter"] = is
			extra["ref"] = encodeB64([]byte(ref2.Decode().Seq))
			extra["refid"] = ref2.ID
		}()
		var out bytes.Buffer
		err := sam.Variants(bytes.NewReader(samb), bytes.NewReader(refb), refFromFile, bytes.NewReader(anno), suffix, &out,
			integer(c, "start", -1), integer(c, "end", -1), boolean(c, "aggregate"), float(c, "threshold", 0),
			boolean(c, "append_snps"), integer(c, "threads", 1))
		return out.Bytes(), extra, err
	}
}
