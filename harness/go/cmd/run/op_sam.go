package main

import (
	"bytes"

	"github.com/virus-evolution/gofasta/pkg/sam"
)

func init() {
	ops["toma"] = func(c Case) ([]byte, map[string]interface{}, error) {
		var out bytes.Buffer
		err := sam.ToMultiAlign(bytes.NewReader(b64(c, "sam")), &out, integer(c, "wrap", 0), integer(c, "start", -1),
			integer(c, "end", -1), boolean(c, "pad"), integer(c, "threads", 1))
		return out.Bytes(), nil, err
	}
}
