package main

import (
	"bytes"
	"encoding/csv"
	"strconv"
)

// one line through encoding/csv as updown topranking configures it (defaults): the fields, each as <len>:<bytes>
func init() {
	ops["csvline"] = func(c Case) ([]byte, map[string]interface{}, error) {
		r := csv.NewReader(bytes.NewReader(b64(c, "line")))
		rec, err := r.Read()
		if err != nil {
			return nil, nil, err
		}
		var out bytes.Buffer
		for _, f := range rec {
			out.WriteString(strconv.Itoa(len(f)))
			out.WriteByte(':')
			out.WriteString(f)
		}
		return out.Bytes(), nil, nil
	}
}
