package main

import (
	"bytes"

	"github.com/virus-evolution/gofasta/pkg/snps"
)

func init() {
	ops["snps"] = func(c Case) ([]byte, map[string]interface{}, error) {
		var out bytes.Buffer
		err := snps.SNPs(bytes.NewReader(b64(c, "ref")), bytes.NewReader(b64(c, "aln")),
			boolean(c, "hard"), boolean(c, "aggregate"), float(c, "threshold", 0), &out)
		return out.Bytes(), nil, err
	}
}
