package main

import (
	"bytes"
	"sort"
	"strconv"
	"strings"

	"github.com/virus-evolution/gofasta/pkg/genbank"
)

// the FEATURES block of a GenBank file through genbank.ReadGenBank: every feature as key, location and qualifiers sorted by name
func init() {
	ops["gbfeatures"] = func(c Case) ([]byte, map[string]interface{}, error) {
		in := append([]byte("LOCUS       X\nFEATURES             Location/Qualifiers\n"), b64(c, "block")...)
		in = append(in, []byte("ORIGIN\n        1 acgt\n//\n")...)
		gb, err := genbank.ReadGenBank(bytes.NewReader(in))
		if err != nil {
			return nil, nil, err
		}
		var sb strings.Builder
		w := func(x string) { sb.WriteString(strconv.Itoa(len(x)) + ":" + x) }
		for _, f := range gb.FEATURES {
			sb.WriteString("#")
			w(f.Feature)
			w(f.Location.Representation)
			if f.Info == nil {
				sb.WriteString("nil")
				continue
			}
			keys := make([]string, 0)
			for k := range f.Info {
				keys = append(keys, k)
			}
			sort.Strings(keys)
			for _, k := range keys {
				sb.WriteString("|")
				w(k)
				w(f.Info[k])
			}
		}
		return []byte(sb.String()), nil, nil
	}
	// the ORIGIN block through genbank.ReadGenBank: the sequence it keeps
	ops["gborigin"] = func(c Case) ([]byte, map[string]interface{}, error) {
		in := append([]byte("LOCUS       X\nORIGIN\n"), b64(c, "block")...)
		in = append(in, []byte("//\n")...)
		gb, err := genbank.ReadGenBank(bytes.NewReader(in))
		if err != nil {
			return nil, nil, err
		}
		return gb.ORIGIN, nil, nil
	}
}
