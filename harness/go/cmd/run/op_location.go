package main

import (
	"strconv"
	"strings"

	"github.com/virus-evolution/gofasta/pkg/genbank"
)

// GenBank location strings: GetPositions (comma-separated decimal positions) or IsReverse ("true"/"false")
func init() {
	ops["location"] = func(c Case) ([]byte, map[string]interface{}, error) {
		l := genbank.Location{Representation: string(b64(c, "loc"))}
		if str(c, "what") == "reverse" {
			r, err := l.IsReverse()
			if err != nil {
				return nil, nil, err
			}
			return []byte(strconv.FormatBool(r)), nil, nil
		}
		ps, err := l.GetPositions()
		if err != nil {
			return nil, nil, err
		}
		ss := make([]string, len(ps))
		for i, p := range ps {
			ss[i] = strconv.Itoa(p)
		}
		return []byte(strings.Join(ss, ",")), nil, nil
	}
}
