package main

import (
	"bytes"
	"errors"
	"strconv"
	"strings"

	"github.com/virus-evolution/gofasta/pkg/genbank"
	"github.com/virus-evolution/gofasta/pkg/gff"
	"github.com/virus-evolution/gofasta/pkg/variants"
)

// the regions the variant callers make from the bytes of an annotation file whose own sequence is the reference:
// ReadGenBank + RegionsFromGenbank(len(ORIGIN)), ReadGFF + RegionsFromGFF(the single ##FASTA record, gaps removed)
func init() {
	ops["regions"] = func(c Case) ([]byte, map[string]interface{}, error) {
		anno := b64(c, "file")
		var rs []variants.Region
		var inter []int
		var err error
		switch str(c, "suffix") {
		case "gb":
			gb, e := genbank.ReadGenBank(bytes.NewReader(anno))
			if e != nil {
				return nil, nil, e
			}
			rs, inter, err = variants.RegionsFromGenbank(gb, len(gb.ORIGIN))
		case "gff":
			g, e := gff.ReadGFF(bytes.NewReader(anno))
			if e != nil {
				return nil, nil, e
			}
			if len(g.FASTA) != 1 {
				return nil, nil, errors.New("gff FASTA")
			}
			var ref string
			for _, v := range g.FASTA {
				ref = strings.ReplaceAll(v.Seq, "-", "")
			}
			rs, inter, err = variants.RegionsFromGFF(g, ref)
		default:
			return nil, nil, errors.New("suffix")
		}
		if err != nil {
			return nil, nil, err
		}
		var sb strings.Builder
		w := func(x string) { sb.WriteString(strconv.Itoa(len(x)) + ":" + x) }
		ints := func(l []int) string {
			s := make([]string, len(l))
			for i, p := range l {
				s[i] = strconv.Itoa(p)
			}
			return strings.Join(s, ",")
		}
		for _, r := range rs {
			sb.WriteString("#")
			w(r.Name)
			w(strconv.Itoa(r.Strand))
			w(ints(r.Positions))
			w(r.Translation)
		}
		sb.WriteString("I")
		w(ints(inter))
		return []byte(sb.String()), nil, nil
	}
}
