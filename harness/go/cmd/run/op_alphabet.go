package main

import (
	"bytes"
	"errors"

	"github.com/virus-evolution/gofasta/pkg/alphabet"
	"github.com/virus-evolution/gofasta/pkg/fastaio"
)

func init() {
	ops["translate"] = func(c Case) ([]byte, map[string]interface{}, error) {
		t, err := alphabet.Translate(string(b64(c, "nuc")), boolean(c, "strict"))
		return []byte(t), nil, err
	}
	ops["complement"] = func(c Case) ([]byte, map[string]interface{}, error) {
		s := string(b64(c, "nuc"))
		fr := fastaio.FastaRecord{ID: "x", Seq: s}
		var a, b string
		if boolean(c, "reverse") {
			a, b = alphabet.ReverseComplement(s), fr.ReverseComplement().Seq
		} else {
			a, b = alphabet.Complement(s), fr.Complement().Seq
		}
		if a != b {
			return []byte(a + "|" + b), nil, errors.New("alphabet and FastaRecord complement disagree")
		}
		return []byte(a), nil, nil
	}
	// encoded complement: read the sequence through the encoding reader (soft or hard gaps), complement the
	// EncodedFastaRecord, return the encoded bytes
	ops["ecomplement"] = func(c Case) ([]byte, map[string]interface{}, error) {
		in := append([]byte(">x\n"), b64(c, "nuc")...)
		recs, err := fastaio.ReadEncodeAlignmentToList(bytes.NewReader(in), boolean(c, "hard"))
		if err != nil {
			return nil, nil, err
		}
		var r fastaio.EncodedFastaRecord
		if boolean(c, "reverse") {
			r = recs[0].ReverseComplement()
		} else {
			r = recs[0].Complement()
		}
		return r.Seq, map[string]interface{}{"decoded": r.Decode().Seq}, nil
	}
}
