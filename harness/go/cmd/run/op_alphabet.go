package main

import (
	"bytes"
	"errors"
	"strings"

	"github.com/virus-evolution/gofasta/pkg/alphabet"
	"github.com/virus-evolution/gofasta/pkg/fastaio"
)

// underLoad calls f repeatedly while other goroutines are inside the same package functions with other arguments (the
// workers of variants --threads N do exactly that): a pure function gives the answer it gave alone, every time
func underLoad(n int, alone string, f func() string) error {
	stop := make(chan struct{})
	done := make(chan struct{})
	for w := 0; w < 3; w++ {
		go func(w int) {
			other := strings.Repeat("TGCAYRMK"[w:w+3], (n+5)/3+1)
			for {
				select {
				case <-stop:
					done <- struct{}{}
					return
				default:
					alphabet.Complement(other)
					alphabet.ReverseComplement(other[:n+1])
					alphabet.Translate(other[:3*((n+3)/3)], false)
				}
			}
		}(w)
	}
	var err error
	for i := 0; i < 300 && err == nil; i++ {
		if got := f(); got != alone {
			err = errors.New("with other goroutines in the package the same call returned " + got + " instead of " + alone)
		}
	}
	close(stop)
	for w := 0; w < 3; w++ {
		<-done
	}
	return err
}

func init() {
	ops["translate"] = func(c Case) ([]byte, map[string]interface{}, error) {
		nuc, strict := string(b64(c, "nuc")), boolean(c, "strict")
		t, err := alphabet.Translate(nuc, strict)
		// a call leaves nothing behind, whether it succeeded or was refused: the same call again gives the same answer, and a fixed
		// probe translated right afterwards (same goroutine) gives its fixed answer
		t2, err2 := alphabet.Translate(nuc, strict)
		if t2 != t || (err == nil) != (err2 == nil) {
			panic("alphabet.Translate: the same call repeated returned " + t2 + " instead of " + t)
		}
		if probe, perr := alphabet.Translate("AAAGGGTGA", false); probe != "KG*" || perr != nil {
			panic("alphabet.Translate: after this call Translate(AAAGGGTGA, lenient) returned " + probe + " instead of KG* (a refused or finished call must leave nothing behind)")
		}
		if err == nil && boolean(c, "load") {
			if e := underLoad(len(nuc), t, func() string { x, _ := alphabet.Translate(nuc, strict); return x }); e != nil {
				return []byte(t), nil, e
			}
		}
		return []byte(t), nil, err
	}
	ops["complement"] = func(c Case) ([]byte, map[string]interface{}, error) {
		s := string(b64(c, "nuc"))
		fr := fastaio.FastaRecord{ID: "x", Seq: s}
		var a, b string
		if boolean(c, "reverse") {
			a, b = alphabet.ReverseComplement(s), fr.ReverseComplement().Seq
		} else {
			a, b = alphabet.Complement(s), fr.Complement().Seq
		}
		if a != b {
			return []byte(a + "|" + b), nil, errors.New("alphabet and FastaRecord complement disagree")
		}
		if boolean(c, "load") {
			rev := boolean(c, "reverse")
			if e := underLoad(len(s), a, func() string {
				if rev {
					return alphabet.ReverseComplement(s)
				}
				return alphabet.Complement(s)
			}); e != nil {
				return []byte(a), nil, e
			}
		}
		return []byte(a), nil, nil
	}
	// encoded complement: read the sequence through the encoding reader (soft or hard gaps), complement the
	// EncodedFastaRecord, return the encoded bytes
	ops["ecomplement"] = func(c Case) ([]byte, map[string]interface{}, error) {
		in := append([]byte(">x\n"), b64(c, "nuc")...)
		recs, err := fastaio.ReadEncodeAlignmentToList(bytes.NewReader(in), boolean(c, "hard"))
		if err != nil {
			return nil, nil, err
		}
		// value semantics: taking one strand must leave the record, and every strand taken before, as they were
		orig := append([]byte(nil), recs[0].Seq...)
		var r fastaio.EncodedFastaRecord
		if boolean(c, "reverse") {
			r = recs[0].ReverseComplement()
		} else {
			r = recs[0].Complement()
		}
		first := append([]byte(nil), r.Seq...)
		comp := recs[0].Complement()
		compCopy := append([]byte(nil), comp.Seq...)
		rc := recs[0].ReverseComplement()
		back := comp.Complement()
		rev := func(b []byte) []byte {
			o := make([]byte, len(b))
			for i := range b {
				o[len(b)-1-i] = b[i]
			}
			return o
		}
		switch {
		case !bytes.Equal(recs[0].Seq, orig):
			return first, nil, errors.New("the record itself was changed by taking its complement / reverse complement")
		case !bytes.Equal(r.Seq, first) || !bytes.Equal(comp.Seq, compCopy):
			return first, nil, errors.New("a strand taken earlier was changed by taking another one (results share storage)")
		case !bytes.Equal(rc.Seq, rev(compCopy)):
			return first, nil, errors.New("reverse complement is not the reverse of the complement of the same record")
		case !bytes.Equal(back.Seq, orig):
			return first, nil, errors.New("complement of the complement is not the record")
		}
		return first, map[string]interface{}{"decoded": r.Decode().Seq}, nil
	}
}
