package main

import (
	"bytes"
	"math"

	"github.com/virus-evolution/gofasta/pkg/closest"
	"github.com/virus-evolution/gofasta/pkg/fastaio"
)

// floatParts decomposes a float64 into (kind, mantissa, exponent): kind 0 zero, 1 finite positive,
// 2 finite negative, 3 +Inf, 4 -Inf, 5 NaN; value = mantissa * 2^exponent.
func floatParts(f float64) []interface{} {
	switch {
	case math.IsNaN(f):
		return []interface{}{5, "0", 0}
	case math.IsInf(f, 1):
		return []interface{}{3, "0", 0}
	case math.IsInf(f, -1):
		return []interface{}{4, "0", 0}
	case f == 0:
		return []interface{}{0, "0", 0}
	}
	bits := math.Float64bits(f)
	exp := int((bits >> 52) & 0x7ff)
	frac := bits & ((1 << 52) - 1)
	var m uint64
	var e int
	if exp == 0 {
		m, e = frac, -1074
	} else {
		m, e = frac|(1<<52), exp-1075
	}
	kind := 1
	if bits>>63 == 1 {
		kind = 2
	}
	return []interface{}{kind, uitoa(m), e}
}

func uitoa(u uint64) string {
	if u == 0 {
		return "0"
	}
	var b [20]byte
	i := len(b)
	for u > 0 {
		i--
		b[i] = byte('0' + u%10)
		u /= 10
	}
	return string(b[i:])
}

// readScored collects the records of the scoring reader
func readScored(in []byte) ([]fastaio.EncodedFastaRecord, error) {
	ch := make(chan fastaio.EncodedFastaRecord)
	cErr := make(chan error)
	cDone := make(chan bool)
	go fastaio.ReadEncodeScoreAlignment(bytes.NewReader(in), false, ch, cErr, cDone)
	var recs []fastaio.EncodedFastaRecord
	for {
		select {
		case r := <-ch:
			recs = append(recs, r)
		case err := <-cErr:
			return nil, err
		case <-cDone:
			return recs, nil
		}
	}
}

func init() {
	ops["closest"] = func(c Case) ([]byte, map[string]interface{}, error) {
		q, t := b64(c, "query"), b64(c, "target")
		measure := str(c, "measure")
		n := integer(c, "n", 0)
		maxdist := float(c, "maxdist", -1.0)
		extra := map[string]interface{}{}
		// the distance matrix through the exported probe (oracle for tn93; cross-check for raw/snp)
		if boolean(c, "matrix") {
			qs, err1 := fastaio.ReadEncodeAlignmentToList(bytes.NewReader(q), false)
			ts, err2 := readScored(t)
			if err1 == nil && err2 == nil && len(qs) > 0 && len(ts) > 0 && len(qs[0].Seq) == len(ts[0].Seq) {
				mat := [][]interface{}{}
				for _, qr := range qs {
					row := []interface{}{}
					for _, tr := range ts {
						row = append(row, floatParts(closest.VerifDistance(measure, qr, tr)))
					}
					mat = append(mat, row)
				}
				extra["matrix"] = mat
			}
		}
		var out bytes.Buffer
		var err error
		if n > 0 || maxdist != -1.0 {
			err = closest.ClosestN(n, maxdist, bytes.NewReader(q), bytes.NewReader(t), measure, &out, boolean(c, "table"), integer(c, "threads", 0))
		} else {
			err = closest.Closest(bytes.NewReader(q), bytes.NewReader(t), measure, &out, integer(c, "threads", 0))
		}
		return out.Bytes(), extra, err
	}
}
