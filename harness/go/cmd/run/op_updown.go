package main

import (
	"bytes"

	"github.com/virus-evolution/gofasta/pkg/updown"
)

func init() {
	ops["updown_list"] = func(c Case) ([]byte, map[string]interface{}, error) {
		var out bytes.Buffer
		err := updown.List(bytes.NewReader(b64(c, "ref")), bytes.NewReader(b64(c, "aln")), &out)
		return out.Bytes(), nil, err
	}
}
