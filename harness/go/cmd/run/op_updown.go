package main

import (
	"bytes"

	"github.com/virus-evolution/gofasta/pkg/updown"
)

func init() {
	ops["updown_list"] = func(c Case) ([]byte, map[string]interface{}, error) {
		var out bytes.Buffer
		err := updown.List(bytes.NewReader(b64(c, "ref")), bytes.NewReader(b64(c, "aln")), &out)
		return out.Bytes(), nil, err
	}
}

func intv(c Case, k string) int { return integer(c, k, 0) }

func init() {
	ops["topranking"] = func(c Case) ([]byte, map[string]interface{}, error) {
		var out bytes.Buffer
		ign := []string{}
		if l, ok := c["ignore"].([]interface{}); ok {
			for _, x := range l {
				ign = append(ign, x.(string))
			}
		}
		qt, tt := str(c, "qtype"), str(c, "ttype")
		if qt == "" {
			qt = "fasta"
		}
		if tt == "" {
			tt = "fasta"
		}
		err := updown.TopRanking(bytes.NewReader(b64(c, "query")), bytes.NewReader(b64(c, "target")), bytes.NewReader(b64(c, "ref")), &out,
			boolean(c, "table"), qt, tt, ign,
			intv(c, "sizetotal"), intv(c, "sizeup"), intv(c, "sizedown"), intv(c, "sizeside"), intv(c, "sizesame"),
			intv(c, "distall"), intv(c, "distup"), intv(c, "distdown"), intv(c, "distside"),
			float32(float(c, "threshpair", 0.1)), integer(c, "threshtarg", 10000), boolean(c, "nofill"), intv(c, "distpush"))
		return out.Bytes(), nil, err
	}
}
