package main

import (
	"bytes"
	"errors"
	"io"
	"time"

	"github.com/virus-evolution/gofasta/pkg/closest"
	"github.com/virus-evolution/gofasta/pkg/sam"
	"github.com/virus-evolution/gofasta/pkg/snps"
	"github.com/virus-evolution/gofasta/pkg/updown"
	"github.com/virus-evolution/gofasta/pkg/variants"
)

// entry points that take the output destination as an io.Writer
var wops = map[string]func(c Case, w io.Writer) error{
	"snps": func(c Case, w io.Writer) error {
		return snps.SNPs(bytes.NewReader(b64(c, "ref")), bytes.NewReader(b64(c, "aln")), boolean(c, "hard"), boolean(c, "aggregate"), float(c, "threshold", 0), w)
	},
	"updown_list": func(c Case, w io.Writer) error {
		return updown.List(bytes.NewReader(b64(c, "ref")), bytes.NewReader(b64(c, "aln")), w)
	},
	"topranking": func(c Case, w io.Writer) error {
		return updown.TopRanking(bytes.NewReader(b64(c, "query")), bytes.NewReader(b64(c, "target")), bytes.NewReader(b64(c, "ref")), w,
			boolean(c, "table"), "fasta", "fasta", []string{},
			intv(c, "sizetotal"), intv(c, "sizeup"), intv(c, "sizedown"), intv(c, "sizeside"), intv(c, "sizesame"),
			intv(c, "distall"), intv(c, "distup"), intv(c, "distdown"), intv(c, "distside"),
			float32(float(c, "threshpair", 0.1)), integer(c, "threshtarg", 10000), boolean(c, "nofill"), intv(c, "distpush"))
	},
	"closest": func(c Case, w io.Writer) error {
		n := integer(c, "n", 0)
		maxdist := float(c, "maxdist", -1.0)
		if n > 0 || maxdist != -1.0 {
			return closest.ClosestN(n, maxdist, bytes.NewReader(b64(c, "query")), bytes.NewReader(b64(c, "target")), str(c, "measure"), w, boolean(c, "table"), 1)
		}
		return closest.Closest(bytes.NewReader(b64(c, "query")), bytes.NewReader(b64(c, "target")), str(c, "measure"), w, 1)
	},
	"variants": func(c Case, w io.Writer) error {
		return variants.Variants(bytes.NewReader(b64(c, "msa")), false, str(c, "refid"), bytes.NewReader(b64(c, "anno")), str(c, "suffix"), w,
			integer(c, "start", -1), integer(c, "end", -1), boolean(c, "aggregate"), float(c, "threshold", 0), boolean(c, "append_snps"), integer(c, "threads", 1))
	},
	"toma": func(c Case, w io.Writer) error {
		return sam.ToMultiAlign(bytes.NewReader(b64(c, "sam")), w, integer(c, "wrap", 0), integer(c, "start", -1), integer(c, "end", -1), boolean(c, "pad"), integer(c, "threads", 1))
	},
	// sam indels writes to two destinations: the fault is injected into one of them, the other accepts everything
	"indels_ins": func(c Case, w io.Writer) error {
		return sam.Indels(bytes.NewReader(b64(c, "sam")), w, io.Discard, integer(c, "threshold", 1))
	},
	"indels_del": func(c Case, w io.Writer) error {
		return sam.Indels(bytes.NewReader(b64(c, "sam")), io.Discard, w, integer(c, "threshold", 1))
	},
	"samvariants": func(c Case, w io.Writer) error {
		return sam.Variants(bytes.NewReader(b64(c, "sam")), bytes.NewReader(b64(c, "ref")), boolean(c, "ref_from_file"), bytes.NewReader(b64(c, "anno")), str(c, "suffix"), w,
			integer(c, "start", -1), integer(c, "end", -1), boolean(c, "aggregate"), float(c, "threshold", 0), boolean(c, "append_snps"), integer(c, "threads", 1))
	},
}

type failingWriter struct {
	k     int // fail the k-th Write call (1-based); 0 = never
	calls int
	kept  bytes.Buffer
}

var errInjected = errors.New("injected write failure")

func (f *failingWriter) Write(p []byte) (int, error) {
	f.calls++
	if f.calls == f.k {
		return 0, errInjected
	}
	f.kept.Write(p)
	return len(p), nil
}

// call runs one entry point with a timeout; returns (error, finished)
func callW(name string, c Case, w io.Writer) (error, bool) {
	done := make(chan error, 1)
	go func() {
		defer func() {
			if r := recover(); r != nil {
				done <- errors.New("panic")
			}
		}()
		done <- wops[name](c, w)
	}()
	select {
	case err := <-done:
		return err, true
	case <-time.After(5 * time.Second):
		return nil, false
	}
}

func init() {
	// failwrite: for every k from 1 to the number of Write calls of a normal run, fail the k-th call and record
	// whether the entry point returned an error.
	ops["failwrite"] = func(c Case) ([]byte, map[string]interface{}, error) {
		name := str(c, "entry")
		if _, ok := wops[name]; !ok {
			return nil, nil, errors.New("unknown target " + name)
		}
		base := &failingWriter{}
		err, fin := callW(name, c, base)
		if !fin || err != nil {
			msg := "baseline run did not finish"
			if err != nil {
				msg = "baseline run failed: " + err.Error()
			}
			return nil, map[string]interface{}{"writes": base.calls}, errors.New(msg)
		}
		silent := []interface{}{}
		hung := []interface{}{}
		for k := 1; k <= base.calls; k++ {
			fw := &failingWriter{k: k}
			err, fin := callW(name, c, fw)
			if !fin {
				hung = append(hung, k)
			} else if err == nil {
				silent = append(silent, k)
			}
		}
		return base.kept.Bytes(), map[string]interface{}{"writes": base.calls, "silent": silent, "hung": hung}, nil
	}
}
