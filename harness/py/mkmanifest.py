#!/usr/bin/env python3
"""Regenerates /verif/MANIFEST.json from the table below (kept next to the code so that the
manifest stays in step with what the checks do)."""
import json
import os

VERIF = os.path.dirname(os.path.dirname(os.path.dirname(os.path.abspath(__file__))))

BASE_NOTE = ("Trusted: Coq 8.16.1 kernel incl. vm_compute; the spec files (Alphabet.v and the Spec definitions); "
             "the table dumper (executes the current tree's table constructors); the correspondence check "
             "(Python generators, Go runner, coqc evaluation) which ties the hand-written Gallina model to the "
             "current source; Go runtime and standard library are modelled, not verified. No axioms declared.")

# id -> (claimed?, level text, technique, level_note extra, design ref)
CLAIMED = {
    "C17": ("The codon dictionary and the complement tables are dumped from the running code on every run; over that dump the kernel evaluates the complete sweeps (all 3375 IUPAC codons against unique-product under an independently written standard code, all 64 unambiguous codons, all 32 accepted characters x both gap encodings for complement in text and bit-encoded form) and the sweeps are lifted to universally quantified theorems; Translate (strict and lenient) and complement/reverse-complement involution are proved for every length. Differential run of alphabet.Translate/Complement/ReverseComplement and the FastaRecord/EncodedFastaRecord methods against model and spec.",
            "Coq proof (complete finite sweeps of tables regenerated from the code, lifted by forallb_forall; induction over length) + correspondence check",
            "", "5 C17"),
    "C10": ("For every pair of byte files the Coq model of `updown list` (reader, the getLines scan with its open-tract state, range and row printer) is proved equal to a declarative specification command: SNP list = the A/C/G/T columns whose base is not in the reference symbol's set, ranges = starts of maximal runs of non-A/C/G/T columns paired with their stops, counts as counted (C10_command_eq_spec); separately: the row reconstructs the class of every column (C10_list_reconstructs), ranges are ascending and pairwise non-adjacent, SNPs ascending and exact. Tied to the code by the regenerated tables and a differential run of updown.List against model and spec.",
            "Coq proof (invariant over the scan fold, induction over columns, table sweeps) + correspondence check",
            "", "5 C10"),
    "C16": ("One reader model parametrised by the symbol conversion mirrors the five hand-copied scanner loops; proved for all inputs: the reader never panics (and terminates, being a Gallina function) on any byte stream; any layout of a set of records (any chunking into lines incl. blank lines, LF or CRLF per line, optional final newline) reads back exactly those records in order (file-level theorem through a byte-level model of bufio.ScanLines); letter case never matters; the plain reader agrees with the encoding readers; the encoding readers are the validity-only reader followed by encoding (strictness); score and A/C/G/T counts are those of the sequence. Differential run of all five readers on valid re-layouts and a malformed stream, plus a generator-side oracle for the plain reader.",
            "Coq proof (simulation/invariant over the line fold, induction over layouts, table sweeps) + correspondence check",
            "UTF-8 white space in headers and the 1 MiB token limit are outside the model.", "5 C16"),
    "C06": ("The shared theorem online_topk_eq_sorted_prefix (the Go admission rule: append below capacity, stable sort + truncate at capacity, admit iff strictly better than the last) is instantiated with the key (distance ascending, completeness descending) after showing that the float comparisons of non-NaN keys form a strict weak order (via a lexicographic code of SpecFloat values); consequences proved for any number of targets: find_closest_n = first K within D of the stable sort, plain closest = -n 1, an undefined (+Inf) distance never displaces a defined one, and both whole commands equal their spec commands on every input. Differential run of closest.Closest/ClosestN on tie-rich inputs against model and spec (bytes).",
            "Coq proof (invariant over the online catchment fold, strict-weak-order instantiation over SpecFloat) + correspondence check",
            "tn93 keys are taken from the implementation (float bits through the verif export); C07 decides their value.", "5 C06"),
    "C07": ("snp and raw counts are proved equal to the column counts of the statement for every pair of valid sequences (from the finite table sweeps), with symmetry, n<=d, and zero on identical unambiguous sequences; the tn93 column classes (differences, purine/pyrimidine transitions, compared sites) are proved to be the named ones; eq. (7) is written over R (TN93Spec.v, zero on identical proved). raw is modelled bit-exactly (SpecFloat division, exact 'f',9 formatting). Correspondence: complete 32x32 symbol grid + random pairs through closest --table (bytes) and the float values of the three Go distance functions (bit-exact vs spec for raw/snp; per-pair kernel-checked interval enclosure at 1e-12 for tn93).",
            "Coq proof (induction over columns + table sweeps; SpecFloat model) + correspondence check; tn93 value: certified interval enclosure per sampled pair (partial)",
            "PARTIAL for tn93: the float evaluation of eq. (7) (math.Log, rounding) is not modelled; sampled pairs are certified individually with coq-interval, which depends on the standard library's real-number axioms (ClassicalDedekindReals.sig_forall_dec, sig_not_dec, functional_extensionality_dep, Classical_Prop.classic).", "5 C07"),
    "C01": ("Proved for every CIGAR/POS/reference length: the row built from a record has the reference length and at every reference position holds the cell a two-counter walk of the CIGAR assigns (one_line_cell); per-column flattening gives 'N' for two different bases and otherwise the greatest of base > '-' > '*'; the flank/internal rewrite and the --pad rewrite are characterised position-wise; records with 0x4/0x100 never contribute wherever they sit; composed: the row of a block before the rewrite is, at every reference position, the flattening of the cells its records' CIGARs align there; the blocks are the non-skipped records in input order cut into non-empty runs of one name; and the whole command (grouping, flattening, rewrite, window, wrap, writers) equals, for every record list and option set, a specification command written position by position from the statement (command_eq_spec). The command is a Coq model compared byte for byte with sam.ToMultiAlign, and the implementation's bytes are also compared with an oracle written from the statement.",
            "Coq proof (induction over CIGAR operators and columns) + correspondence check + statement-level oracle",
            "SAM text parsing (biogo/hts) is trusted; block = consecutive records of one name (the statement's 'one record per query name' presumes a query's records are contiguous, as aligners write them).", "5 C01"),
    "C04": ("Proved (model carries, next to every emitted record, the reference positions it mentions): the coordinate map sends position p to its own non-gap column; every position is in a reported region or in the intergenic list, never both; intergenic nuc: records iff the symbols test disjoint; the codon loop of a region (any strand/joins, length multiple of 3) mentions EXACTLY the region's positions whose symbols test disjoint (invariant over the fold); the merged list mentions p iff p is a reference position whose symbols test disjoint; after the stable sort and duplicate removal nothing is invented (soundness) and nothing is dropped (completeness, for pairwise distinct feature names: records of one feature differ in residue number, of different features in name). The aa: rule per feature: the codon loop is a function of consecutive position triples (codon_loop_spec); an aa: record for codon j is emitted exactly when the query codon's product on the feature's strand is neither X nor the reference residue, with residue j+1, both residues and the feature name (sound and complete); that product is b iff the codon consists of three IUPAC codes all of whose expansions translate to b under the standard genetic code; the GFF path's reference residues are the unique products of the reference codons. The whole command is also compared byte for byte with variants.Variants and every output row is checked by an oracle written from the statement (standard code, strands, joins).",
            "Coq proof (fold invariant over the codon loop, partition, sort/dedupe lemmas) + correspondence check + statement-level oracle",
            "The aa: records of the final list are exactly those the features' codon loops emit (aa_final_exact: through merge, stable sort and duplicate removal). Inputs, not verified: GenBank /translation text and the regions built by the implementation's parsers (C14).", "5 C04"),
    "C05": ("Proved for every pair of rows: the code's scan (alignment positions + the MSAToRef offset table that is 0 at reference-gap columns) equals the reference-coordinate machine indels_ref (insertion at P = reference bases to its left; deletion at 1 + reference bases to its left; one record per maximal run; start- and end-abutting deletions dropped), and the reported list is invariant under insertion of columns that are gaps in both rows. Correspondence: variants.Variants on indel-rich alignments, each also run with random double-gap columns added (outputs must be identical), every row checked against ins/del lists computed from the statement, Coq model byte for byte.",
            "Coq proof (simulation between the alignment-coordinate and reference-coordinate machines) + correspondence check + metamorphic companion + statement-level oracle",
            "FASTA-MSA form here; the SAM form goes through C11.", "5 C05"),
    "C13": ("Proved for any key type with a deciding equality: the counting association list of the aggregators gives each key the total number of its occurrences over the per-sequence lists, which for duplicate-free lists is the number of sequences whose per-sequence output contains it; each distinct key is listed once; for snps the per-sequence lists are duplicate-free, the counter is the generic one and the output is sorted by (position, allele). Frequencies and the threshold test are modelled bit-exactly (SpecFloat division, exact 'f',9 formatting). Correspondence: snps and variants in per-sequence and --aggregate mode on the same input with thresholds at and just above occurring frequencies; the oracle recounts from the implementation's own per-sequence output; Coq models of both aggregators byte for byte.",
            "Coq proof (counting fold invariant, generic in the key) + SpecFloat model + correspondence check + recount oracle",
            "sam variants --aggregate shares AggregateWriteVariants with variants;", "5 C13"),
    "C14": ("Proved for every feature AST (strand, any number of segments, codon_start): the ordered position list derived on the GenBank path, for complement(join(..)) and for join(complement(..),..), equals the one derived on the GFF3 path from the equivalent rows; and a consistent annotation (the GenBank /translation is what the CDS translates to) gives the SAME region record (name, strand, ordered positions, residues) on both paths, for every list of features - so the variant caller, one function of the rows and the regions, receives identical inputs. Correspondence: one AST rendered both ways, parsed by the real code; regions compared field by field (name, strand, positions, translation) with the AST-level Coq model; variants run with each rendering on the same alignment must list the same mutations; each output byte for byte against the Coq caller model and against the statement-level oracle.",
            "Coq proof (AST-level position lists) + correspondence check over both renderings",
            "Since rounds 6-8 the GenBank location strings, the FEATURES and ORIGIN blocks and the GFF3 feature rows are modelled at byte level (LocationModel, GenbankModel, GffLineModel: compared with the code on every run, round-trip theorems); the ## directives and the ##FASTA section of GFF3 remain at AST level.", "5 C14"),
    "C02": ("Proved for every CIGAR over the nine operators, with and without insertion columns: the paired walk yields rows of equal length whose reference row, with its gap columns removed, is exactly the stretch of the reference the CIGAR consumes. Proved for queries described by ANY number of records (single, supplementary, overlapping): the whole pipeline - per-record rows, the re-gapping loop over the sorted insertions (find_col / regap_row), '*'-padding, column-wise flattening, right-extension - yields as reference row exactly the canonical gapped reference (after the k-th base, the total length of the block's insertions at k), so removing '-' gives exactly the reference, the gap columns are exactly the inserted bases (|R| = |ref| + total inserted length), the query row has the same length, and the query row read through the reference row (the columns where the reference row is '-' deleted) is exactly the sam toMultiAlign --pad row of the same block (so every reference position carries the aligned base / '-' / 'N'); with --skip-insertions the pair is (reference, toMultiAlign --pad row); a query without insertions gives the same pair; and when no two different records insert at the same reference position, the query row read in the gap columns is exactly the inserted bases of the records, position after position, in CIGAR order (pairk_insertions). The window cut (C15 theorem), wrap and file writer are an executable Coq model compared byte for byte with sam.ToPairAlign (directory output), and the implementation's files are compared with pairs written from the statement (reference row = reference with '-' exactly at the query's insertions; query row = toMultiAlign --pad row with the inserted bases in place).",
            "Coq proof (induction over CIGAR operators; segment representation and invariant over the re-gapping loop) + correspondence check + statement-level oracle",
            "Every clause of the statement has a theorem: the reference-row, length and aligned-position clauses for all blocks, the inserted-bases clause for blocks in which no two different records insert at the same position (the property's non-conflict case) with SEQ bytes above '-'. Hypotheses: the reference has no '-' and no byte below '*'.", "5 C02"),
    "C11": ("Model-level theorem: `sam variants` applies the shared caller to the encoded rows block_to_seq_pair builds, i.e. to the pair `sam toPairAlign` writes (reading that pair back from FASTA unchanged is C16); and for a query without insertions (any number of records) that pair is the reference and the query's sam toMultiAlign --pad row, so `sam variants` reports what `variants` computes for that two-row alignment (uses the C02 theorem that the query row read through the reference row is the --pad row). Correspondence with the real commands: sam variants vs its Coq model byte for byte; and, Go against Go as the statement says, sam variants vs variants --msa on the files written by sam toPairAlign, and vs variants on the sam toMultiAlign --pad rows of insertion-free queries.",
            "Coq proof (reduction to the shared caller; C02 pair theorems for the toMultiAlign clause) + three-command correspondence check",
            "The first theorem is short: the substance is in C02/C04/C05/C16 and in the cross-command differential run.", "5 C11"),
    "C15": ("Proved on the model: toMultiAlign --start/--end is the slice of the untrimmed row (flank rewrite happens first), with --pad it masks outside the window, legacy --trimstart a/--trimend b equals --start a+1/--end b, --wrap only re-breaks (stripping line breaks gives the sequence, lines have width w), the variants window keeps exactly s <= p <= e for the bounds given; toPairAlign --start s --end e cuts both rows from the column of reference base s to that of base e (non-gap columns with s-1 / e-1 reference bases to their left) and the reference bases inside the cut are exactly bases s..e, for any rows and insertions. Correspondence: groups of runs of sam.ToMultiAlign, sam.ToPairAlign and variants.Variants under each option against the unrestricted run (compared as the statement says) and against the Coq models; through the built binary: exhaustive windows on a small reference with legacy vs new flags, and variants from stdin vs file.",
            "Coq proof (definitional slices, induction for wrap) + metamorphic correspondence check incl. the binary",
            "cobra flag parsing trusted; stdin-vs-file equality is decided by the binary runs only.", "5 C15"),
    "C08": ("Proved, for any sizes and any number of bins: each bin's bounded online catchment equals the first K of the stable sort by (distance, fewer ambiguities, file order) (the shared TopK theorem, any strict weak order); the round-robin fill ends with every bin at level r+1 or r of its own spare supply (closed form: sizes within [min(requested, available), available], even up to one), terminates with fuel above the total spare supply, never exceeds the total and stops exactly when the supply is exhausted or the total is reached. whichWay equals the column-wise definition of the statement for sequences of any width over an A/C/G/T reference (bin by which sequence carries differences the other lacks, distance = columns where both are A/C/G/T and differ, pair threshold on hidden differences); in size mode every reported bin is a prefix of its candidates stably sorted by (distance, ambiguities); under --dist-push k a bin is exactly the candidates at the k smallest occurring distances, nearest first, for any k>=1 and any candidate list (invariant over the map/eviction bookkeeping). Composed (core_eq_spec): for FASTA-derived rows the core of the command equals a specification command built from those specs, for any numbers of queries and targets and any option set. The float32 threshold (SpecFloat), option normalisation, FASTA/CSV reading and both writers are an executable Coq model compared byte for byte with updown.TopRanking; table outputs are checked against an oracle written from the statement.",
            "Coq proof (TopK invariant; balance closed form, termination and totals by induction) + correspondence check + statement-level oracle",
            "The pair-threshold formula (float32 ratio of hidden differences) and the writers are taken as in the code (model = spec there); FASTA/CSV reading is C09/C16.", "5 C08"),
    "C09": ("Proved: the five fields `updown list` writes for a well-formed line are parsed back to exactly that line (split/join and decimal round trips, ranges a / a-b); every line computed from a valid sequence is well-formed, so reading the CSV row of a sequence gives the line of the sequence; consequently the command core returns the same output for all four csv/fasta combinations, one row per query in order. Correspondence with the real commands: updown list derives the CSVs, topranking runs in the four combinations and the outputs must be byte-identical; the fasta/fasta run is compared with the Coq model.",
            "Coq proof (parse-print round trip at field level) + four-combination correspondence check",
            "One line of encoding/csv is modelled (CsvModel.csv_parse, compared with the library on every run); the ID may hold any bytes but line breaks (csv_line_roundtrip, list_row_roundtrip).", "5 C09"),
    "C12": ("PARTIAL by nature. Proved: (i) the index-keyed re-ordering writer writes the input order for ANY arrival order (even with repeats) provided every arrival carries its own index and every index arrives - an invariant over the map/counter/drain loop; (ii) result arrays indexed by query position end up identical for any completion order; (iii) keys collected from a map in any iteration order and sorted by a key that totally orders them come out the same (uniqueness of the sorted permutation). Observed on the real binary (verif tag): every command's bytes under seeded scheduling jitter at the worker send sites, --threads 1..16, GOMAXPROCS 1..16 and repeated runs equal the single-threaded reference run; a -race build repeats a subset and must report no data race; the evidence counts the runs in which completion order really differed from arrival order.",
            "Coq proof (invariants over arrival/completion/map order) + schedule exploration of the binary (seeded jitter hook, thread counts, race detector)",
            "PARTIAL: absence of data races and of schedule-dependent deadlock is observed, not proved; the instantiation of (i)-(iii) at each writer/sort of the code is by reading the model, the byte comparison ties it to the code.", "5 C12"),
    "C18": ("PARTIAL by nature: the model carries the DECISION to refuse. Proved: a sequence line with a symbol outside the alphabet anywhere in a file, a file without a leading header, an empty or blank-only stream, a record whose length differs from the alignment width (at a boundary or at the end) all yield an error, never output; two records in --reference, reference/alignment width mismatch, a window outside 1..reference length or start > end, and topranking without a size/dist option are refused; the SAM header hand-off (reader goroutine vs caller, unbuffered rendezvous) has no reachable deadlock state (kernel-enumerated), while the pinned snapshot's did (refuted witness). Observed: the built binary under a timeout, every listed corruption x record position x input file x command; exit 0 or a timeout is a violation.",
            "Coq proof (reader/arguments refusal lemmas, enumerated hand-off LTS) + fault enumeration on the binary under a timeout",
            "PARTIAL: exit status, promptness and 'no partial output presented as success' are properties of the process and are observed; exit status 2 (panic) counts as non-zero.", "5 C18"),
    "C19": ("The write call sites of every function that writes to an output destination are extracted from the source on every run by a go/ast scan (gen/WriteSites.v: function, line, call, checked?); the kernel evaluates that every site is checked and that the scan found the thirteen writers the property names; generic theorem: if every site a run hits is checked, a failure of ANY write makes the run fail (and a dropped site would hide one). Enumerated on the code: for every exported entry point taking an io.Writer, the k-th Write fails for EVERY k up to the number of writes of the run and the entry point must return an error; the binary is run with stdout on /dev/full for every command.",
            "Coq proof over a model regenerated from the source by a translator (go/ast) + exhaustive fault enumeration at every write position",
            "The go/ast classification (assigned error tested by the following statement, which returns or sends on a channel) is syntactic and trusted; propagation from a checked site through the error channel to the caller is observed by the fault enumeration, not proved.", "5 C19"),
    "C03": ("For every pair of byte files the Coq model of `snps` (reader over the dumped encoding tables, bitwise "
            "test, decoder, row printer) is proved equal to the specification command built from the IUPAC meaning "
            "of the symbols (C03_command_eq_spec), with soundness, completeness, ascending order and "
            "case-insensitivity of the listed sites as separate theorems; the model is tied to the code by "
            "regenerating the tables from the running code and by a differential run of snps.SNPs against model "
            "and spec on the complete 32x32x2 symbol-pair grid, random alignments under random layouts, and a "
            "malformed stream.",
            "Coq proof (induction over columns + complete finite sweeps of the regenerated tables) + model/implementation correspondence check",
            "", "5 C03"),
}

NOT_YET = "check not built yet in this revision; planned at level proof (see DESIGN.md section 5)"


def main():
    props = [json.loads(l) for l in open(os.path.join(VERIF, "properties.jsonl"))]
    checks = []
    na = []
    for p in props:
        pid = p["id"]
        if pid in CLAIMED:
            text, tech, note, ref = CLAIMED[pid]
            checks.append({
                "property_id": pid,
                "quick_cmd": "./check %s --tier quick" % pid,
                "thorough_cmd": "./check %s --tier thorough" % pid,
                "evidence_file": "evidence/%s.json" % pid,
                "replay_cmd_template": "./check --replay {path}",
                "engine": "coq+correspondence",
                "level_claimed": {"category": "proof", "text": text, "design_ref": "DESIGN.md section " + ref},
                "level_note": (note + " " if note else "") + BASE_NOTE,
                "technique": tech,
            })
        else:
            na.append({"property_id": pid, "reason": NOT_YET})
    man = {
        "version": 1,
        "setup_cmd": "./check --setup",
        "hooks": {
            "guard": "verif",
            "enable": "go build -tags verif (the harness module harness/go is built with -tags verif against /repo via a replace directive)",
            "baseline_off_cmd": "cd /repo && go build ./... && go test -vet=off -count=1 ./...",
            "source_commits": HOOK_COMMITS,
            "add_only": True,
        },
        "engines": [{"name": "coq+correspondence", "path": "check",
                     "serves_properties": [c["property_id"] for c in checks],
                     "kind_free_text": "Coq 8.16 theorems over a Gallina model (coq/theories), tables regenerated from the "
                                       "running code (coq/gen), differential run model vs implementation (harness/)"}],
        "checks": checks,
        "not_applicable": na,
        "notes": "See DESIGN.md. Fixed defects are listed in known_findings.json (status fixed: they suppress nothing).",
    }
    with open(os.path.join(VERIF, "MANIFEST.json"), "w") as f:
        json.dump(man, f, indent=1)


import subprocess
try:
    HOOK_COMMITS = subprocess.check_output(["git", "-C", "/repo", "log", "--format=%h", "--grep=^verif hook"]).decode().split()
except Exception:
    HOOK_COMMITS = []

if __name__ == "__main__":
    main()
