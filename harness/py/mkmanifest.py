#!/usr/bin/env python3
"""Regenerates /verif/MANIFEST.json from the table below (kept next to the code so that the
manifest stays in step with what the checks do)."""
import json
import os

VERIF = os.path.dirname(os.path.dirname(os.path.dirname(os.path.abspath(__file__))))

BASE_NOTE = ("Trusted: Coq 8.16.1 kernel incl. vm_compute; the spec files (Alphabet.v and the Spec definitions); "
             "the table dumper (executes the current tree's table constructors); the correspondence check "
             "(Python generators, Go runner, coqc evaluation) which ties the hand-written Gallina model to the "
             "current source; Go runtime and standard library are modelled, not verified. No axioms declared.")

# id -> (claimed?, level text, technique, level_note extra, design ref)
CLAIMED = {
    "C17": ("The codon dictionary and the complement tables are dumped from the running code on every run; over that dump the kernel evaluates the complete sweeps (all 3375 IUPAC codons against unique-product under an independently written standard code, all 64 unambiguous codons, all 32 accepted characters x both gap encodings for complement in text and bit-encoded form) and the sweeps are lifted to universally quantified theorems; Translate (strict and lenient) and complement/reverse-complement involution are proved for every length. Differential run of alphabet.Translate/Complement/ReverseComplement and the FastaRecord/EncodedFastaRecord methods against model and spec.",
            "Coq proof (complete finite sweeps of tables regenerated from the code, lifted by forallb_forall; induction over length) + correspondence check",
            "", "5 C17"),
    "C10": ("For every pair of byte files the Coq model of `updown list` (reader, the getLines scan with its open-tract state, range and row printer) is proved equal to a declarative specification command: SNP list = the A/C/G/T columns whose base is not in the reference symbol's set, ranges = starts of maximal runs of non-A/C/G/T columns paired with their stops, counts as counted (C10_command_eq_spec); separately: the row reconstructs the class of every column (C10_list_reconstructs), ranges are ascending and pairwise non-adjacent, SNPs ascending and exact. Tied to the code by the regenerated tables and a differential run of updown.List against model and spec.",
            "Coq proof (invariant over the scan fold, induction over columns, table sweeps) + correspondence check",
            "", "5 C10"),
    "C16": ("One reader model parametrised by the symbol conversion mirrors the five hand-copied scanner loops; proved for all inputs: the reader never panics (and terminates, being a Gallina function) on any byte stream; any layout of a set of records (any chunking into lines incl. blank lines, LF or CRLF per line, optional final newline) reads back exactly those records in order (file-level theorem through a byte-level model of bufio.ScanLines); letter case never matters; the plain reader agrees with the encoding readers; the encoding readers are the validity-only reader followed by encoding (strictness); score and A/C/G/T counts are those of the sequence. Differential run of all five readers on valid re-layouts and a malformed stream, plus a generator-side oracle for the plain reader.",
            "Coq proof (simulation/invariant over the line fold, induction over layouts, table sweeps) + correspondence check",
            "UTF-8 white space in headers and the 1 MiB token limit are outside the model.", "5 C16"),
    "C06": ("The shared theorem online_topk_eq_sorted_prefix (the Go admission rule: append below capacity, stable sort + truncate at capacity, admit iff strictly better than the last) is instantiated with the key (distance ascending, completeness descending) after showing that the float comparisons of non-NaN keys form a strict weak order (via a lexicographic code of SpecFloat values); consequences proved for any number of targets: find_closest_n = first K within D of the stable sort, plain closest = -n 1, an undefined (+Inf) distance never displaces a defined one, and both whole commands equal their spec commands on every input. Differential run of closest.Closest/ClosestN on tie-rich inputs against model and spec (bytes).",
            "Coq proof (invariant over the online catchment fold, strict-weak-order instantiation over SpecFloat) + correspondence check",
            "tn93 keys are taken from the implementation (float bits through the verif export); C07 decides their value.", "5 C06"),
    "C07": ("snp and raw counts are proved equal to the column counts of the statement for every pair of valid sequences (from the finite table sweeps), with symmetry, n<=d, and zero on identical unambiguous sequences; the tn93 column classes (differences, purine/pyrimidine transitions, compared sites) are proved to be the named ones; eq. (7) is written over R (TN93Spec.v, zero on identical proved). raw is modelled bit-exactly (SpecFloat division, exact 'f',9 formatting). Correspondence: complete 32x32 symbol grid + random pairs through closest --table (bytes) and the float values of the three Go distance functions (bit-exact vs spec for raw/snp; per-pair kernel-checked interval enclosure at 1e-12 for tn93).",
            "Coq proof (induction over columns + table sweeps; SpecFloat model) + correspondence check; tn93 value: certified interval enclosure per sampled pair (partial)",
            "PARTIAL for tn93: the float evaluation of eq. (7) (math.Log, rounding) is not modelled; sampled pairs are certified individually with coq-interval, which depends on the standard library's real-number axioms (ClassicalDedekindReals.sig_forall_dec, sig_not_dec, functional_extensionality_dep, Classical_Prop.classic).", "5 C07"),
    "C03": ("For every pair of byte files the Coq model of `snps` (reader over the dumped encoding tables, bitwise "
            "test, decoder, row printer) is proved equal to the specification command built from the IUPAC meaning "
            "of the symbols (C03_command_eq_spec), with soundness, completeness, ascending order and "
            "case-insensitivity of the listed sites as separate theorems; the model is tied to the code by "
            "regenerating the tables from the running code and by a differential run of snps.SNPs against model "
            "and spec on the complete 32x32x2 symbol-pair grid, random alignments under random layouts, and a "
            "malformed stream.",
            "Coq proof (induction over columns + complete finite sweeps of the regenerated tables) + model/implementation correspondence check",
            "", "5 C03"),
}

NOT_YET = "check not built yet in this revision; planned at level proof (see DESIGN.md section 5)"


def main():
    props = [json.loads(l) for l in open(os.path.join(VERIF, "properties.jsonl"))]
    checks = []
    na = []
    for p in props:
        pid = p["id"]
        if pid in CLAIMED:
            text, tech, note, ref = CLAIMED[pid]
            checks.append({
                "property_id": pid,
                "quick_cmd": "./check %s --tier quick" % pid,
                "thorough_cmd": "./check %s --tier thorough" % pid,
                "evidence_file": "evidence/%s.json" % pid,
                "replay_cmd_template": "./check --replay {path}",
                "engine": "coq+correspondence",
                "level_claimed": {"category": "proof", "text": text, "design_ref": "DESIGN.md section " + ref},
                "level_note": (note + " " if note else "") + BASE_NOTE,
                "technique": tech,
            })
        else:
            na.append({"property_id": pid, "reason": NOT_YET})
    man = {
        "version": 1,
        "setup_cmd": "./check --setup",
        "hooks": {
            "guard": "verif",
            "enable": "go build -tags verif (the harness module harness/go is built with -tags verif against /repo via a replace directive)",
            "baseline_off_cmd": "cd /repo && go build ./... && go test -vet=off -count=1 ./...",
            "source_commits": HOOK_COMMITS,
            "add_only": True,
        },
        "engines": [{"name": "coq+correspondence", "path": "check",
                     "serves_properties": [c["property_id"] for c in checks],
                     "kind_free_text": "Coq 8.16 theorems over a Gallina model (coq/theories), tables regenerated from the "
                                       "running code (coq/gen), differential run model vs implementation (harness/)"}],
        "checks": checks,
        "not_applicable": na,
        "notes": "See DESIGN.md. Fixed defects are listed in known_findings.json (status fixed: they suppress nothing).",
    }
    with open(os.path.join(VERIF, "MANIFEST.json"), "w") as f:
        json.dump(man, f, indent=1)


import subprocess
try:
    HOOK_COMMITS = subprocess.check_output(["git", "-C", "/repo", "log", "--format=%h", "--grep=^verif hook"]).decode().split()
except Exception:
    HOOK_COMMITS = []

if __name__ == "__main__":
    main()
