"""One CSV line through encoding/csv (as updown topranking reads it) against the Coq model csv_parse (CsvModel.v): lines
written with the model of csvField from arbitrary fields (must come back as those fields), and arbitrary lines over a small
alphabet rich in quotes and commas (accepted or refused alike).  Lines have no line breaks and at least two fields or one
non-empty field (an empty line is skipped by the library, not parsed)."""
import common as cm


def csv_field(s):
    if any(c in s for c in ',"\r\n'):
        return '"' + s.replace('"', '""') + '"'
    return s


def run(ctx, n):
    rng = ctx.rng
    alpha = 'ab,"",; |/=x'
    items = []
    for _ in range(n):
        k = rng.randint(1, 5)
        fields = ["".join(rng.choice(alpha) for _ in range(rng.randint(0, 6))) for _ in range(k)]
        if rng.random() < 0.5:
            line = ",".join(csv_field(f) for f in fields)
            want = fields
        else:
            line = "".join(rng.choice(alpha) for _ in range(rng.randint(1, 12)))
            want = None
        if not line or (want is not None and len(fields) == 1 and not fields[0]):
            continue
        items.append((line, want))
    cases = [{"id": i, "op": "csvline", "line": cm.b64((l + "\n").encode())} for i, (l, _) in enumerate(items)]
    obs = cm.go_run(cases, ctx.log)
    bad = []
    for i, (l, want) in enumerate(items):
        if want is None:
            continue
        exp = "".join("%d:%s" % (len(f), f) for f in want)
        got = cm.unb64(obs[i]["out"]).decode() if obs[i]["status"] == "ok" else "<%s>" % obs[i]["status"]
        if got != exp:
            bad.append({"line": l, "fields_written": want, "fields_read_by_encoding_csv": got})
    verdicts = cm.coq_verdicts(ctx.pid, ["Base", "FastaModel", "Harness", "CsvModel", "Check_Csv"], "check_csv",
                               [(i, "(%s, %s)" % (cm.cbytes(l.encode()), cm.cgores(obs[i]))) for i, (l, _) in enumerate(items)], ctx.log, tag="csv")
    mism = [{"line": items[i][0], "encoding_csv": obs[i]["status"] + ":" + cm.unb64(obs[i].get("out", "")).decode("latin1")[:100]} for i, v in verdicts.items() if v != 0]
    for b in bad[:3]:
        cm.violation(ctx, "failing-input", dict(b, what="a line of fields written the way updown list writes its ID cell is not read back as those fields"))
    if mism and not bad:
        for b in mism[:3]:
            cm.violation(ctx, "model-mismatch", dict(b, what="CsvModel.csv_parse and encoding/csv disagree on this line; no written line was read back wrongly"), no_failing_input=True)
    return {"csv_lines": len(items), "csv_model_mismatches": len(mism)}
