"""From the bytes of an annotation file to the regions the variant callers use: genbank.ReadGenBank + variants.RegionsFromGenbank and
gff.ReadGFF + variants.RegionsFromGFF against the Coq model ConsumerModel.v (regions_of_genbank_text / regions_of_gff_text, which
compose GenbankFile.v / GffFile.v, LocationModel.v and the consumer functions).  Annotations written from a feature AST in both formats
(must give the regions the AST denotes, and the same in both formats - the statement-level check), and the same texts damaged one
qualifier / column at a time (no /gene, codon_start 0 / 4 / text / beyond the feature, strand ? or ., strands mixed under one ID,
phase beyond the row, no Name, a position beyond the genome, a second ##FASTA record, gaps in the ##FASTA record), on which only
the agreement of code and model is asked."""
import re
import common as cm
import anno
import gen
import annofile


def ast_regions(genome, feats):
    """what the annotation denotes: name, strand, positions in translation order after codon_start, residues incl. the stop"""
    out = []
    for f in feats:
        if not f.named:
            continue
        out.append((f.name, 1 if f.strand == "+" else -1, tuple(f.positions()), f.translation(genome)))
    return out


def parse_out(s):
    """the op's serialisation back to tuples"""
    regs, i = [], 0

    def item():
        nonlocal i
        j = s.index(":", i)
        n = int(s[i:j])
        v = s[j + 1:j + 1 + n]
        i = j + 1 + n
        return v
    while i < len(s) and s[i] == "#":
        i += 1
        name, strand, pos, tr = item(), item(), item(), item()
        regs.append((name, int(strand), tuple(int(p) for p in pos.split(",")) if pos else (), tr))
    assert s[i] == "I"
    i += 1
    inter = item()
    return regs, tuple(int(p) for p in inter.split(",")) if inter else ()


def damage_gb(rng, text):
    lines = text.split("\n")
    k = rng.randint(0, 8)
    idx = [i for i, l in enumerate(lines) if "/codon_start=" in l]
    gi = [i for i, l in enumerate(lines) if "/gene=" in l]
    ci = [i for i, l in enumerate(lines) if l.startswith("     CDS ")]
    if k == 0 and gi:
        del lines[rng.choice(gi)]
    elif k == 1 and idx:
        i = rng.choice(idx)
        lines[i] = lines[i].split("=")[0] + "=" + rng.choice(["0", "4", "x", "", "-1", "+2", "999", '"1"', "2"])
    elif k == 2 and idx:
        del lines[rng.choice(idx)]
    elif k == 3 and ci:
        i = rng.choice(ci)
        lines[i] = re.sub(r"(\d+)\.\.(\d+)", lambda m: "%s..%d" % (m.group(1), int(m.group(2)) + rng.choice([1, 2, 3, 500])), lines[i], count=1)
    elif k == 4 and ci:
        i = rng.choice(ci)
        lines[i] = lines[i].replace("CDS", rng.choice(["cds", "CDS2", "gene"]), 1)
    elif k == 5:
        ti = [i for i, l in enumerate(lines) if "/translation=" in l]
        if ti:
            i = rng.choice(ti)
            lines[i] = "                     /note=\"no translation\""
    elif k == 6 and ci:
        i = rng.choice(ci)
        lines[i] = "     CDS             " + rng.choice(["5", "join(1..3,5)", "1..3,7..9", "complement(9..1)", "join()", "complement()", "<1..9", "1..>9"])
    elif k == 7 and gi:
        i = rng.choice(gi)
        lines.insert(i, lines[i].replace("/gene=", "/gene=\"dup\" /x="))
    else:
        oi = [i for i, l in enumerate(lines) if l.startswith("ORIGIN")]
        if oi:
            lines = lines[:oi[0] + 2] + ["//"]
    return "\n".join(lines)


def damage_gff(rng, text):
    lines = text.split("\n")
    rows = [i for i, l in enumerate(lines) if l.count("\t") == 8 and l.split("\t")[2] == "CDS"]
    k = rng.randint(0, 9)
    if not rows:
        return text
    i = rng.choice(rows)
    f = lines[i].split("\t")
    if k == 0:
        f[6] = rng.choice(["?", ".", "+" if f[6] == "-" else "-"])
    elif k == 1:
        f[7] = rng.choice(["1", "2", "0"])
    elif k == 2:
        f[8] = re.sub(r";?Name=[^;]*", "", f[8]) or "Note=x"
    elif k == 3:
        f[4] = str(int(f[4]) + rng.choice([1, 2, 3, 500]))
    elif k == 4:
        f[2] = rng.choice(["mature_protein_region_of_CDS", "gene", "cds"])
    elif k == 5:
        f[8] = re.sub(r"ID=[^;]*;?", "", f[8]) or "Note=x"
    elif k == 6:
        f[3], f[4] = f[4], f[3]
    elif k == 7:
        lines.append(">second")
        lines.append("ACGT")
        return "\n".join(lines)
    elif k == 8:
        fi = [j for j, l in enumerate(lines) if l.startswith(">")]
        if fi:
            s = lines[fi[0] + 1]
            p = rng.randrange(len(s) + 1)
            lines[fi[0] + 1] = s[:p] + "-" * rng.randint(1, 3) + s[p:]
        return "\n".join(lines)
    else:
        f[8] = f[8] + ";Name=" + rng.choice(["other", ""])
    lines[i] = "\t".join(f)
    return "\n".join(lines)


def run(ctx, n):
    rng = ctx.rng
    items = []                                   # (suffix, bytes, expected regions or None, tag)
    for k in range(n):
        L = rng.randint(30, 90)
        feats = []
        while not feats:
            genome = gen.rand_seq(rng, L)
            feats = anno.random_features(rng, L, max_feats=3, allow_unnamed=rng.random() < 0.3, codon_starts=rng.random() < 0.5)
            genome, feats = anno.patch_stops(rng, genome, feats)
        gb = anno.render_genbank(genome, feats, rng).decode()
        gf = anno.render_gff(genome, feats, mix=rng).decode()
        exp = ast_regions(genome, feats)
        if rng.random() < 0.55:
            items.append(("gb", gb.encode(), exp if all(f.named for f in feats) else None, k))
            items.append(("gff", gf.encode(), exp, k))
        else:
            items.append(("gb", damage_gb(rng, gb).encode(), None, k))
            items.append(("gff", damage_gff(rng, gf).encode(), None, k))
    for _ in range(n // 4):
        b, _e = annofile.genbank_file(rng)
        items.append(("gb", b, None, -1))
        b, _e = annofile.gff_file(rng)
        items.append(("gff", b, None, -1))
    cases = [{"id": i, "op": "regions", "suffix": sfx, "file": cm.b64(b)} for i, (sfx, b, _, _) in enumerate(items)]
    obs = cm.go_run(cases, ctx.log)
    bad, classes = [], {}
    for i, (sfx, b, exp, tag) in enumerate(items):
        st = "panic" if obs[i]["status"] == "crash" else obs[i]["status"]
        classes[sfx + ":" + st] = classes.get(sfx + ":" + st, 0) + 1
        if exp is None:
            continue
        if obs[i]["status"] != "ok":
            bad.append({"file": b.decode("latin1"), "format": sfx, "read": "<%s: %s>" % (obs[i]["status"], obs[i].get("err", "")[:120]), "denoted": repr(exp)[:500]})
            continue
        got, _inter = parse_out(cm.unb64(obs[i]["out"]).decode("latin1"))
        if sorted(got) != sorted(exp):
            bad.append({"file": b.decode("latin1"), "format": sfx, "read": repr(sorted(got))[:500], "denoted": repr(sorted(exp))[:500]})
    verdicts = cm.coq_verdicts(ctx.pid, ["Base", "FastaModel", "Harness", "ConsumerModel", "Check_Consumers"], "check_regions",
                               [(i, "(%s, %s, %s)" % ("true" if sfx == "gff" else "false", cm.cbytes(b), cm.cgores(obs[i]))) for i, (sfx, b, _, _) in enumerate(items)],
                               ctx.log, tag="regions")
    mism = [{"format": items[i][0], "file": items[i][1].decode("latin1"),
             "code": obs[i]["status"] + ":" + cm.unb64(obs[i].get("out", "")).decode("latin1")[:300] + obs[i].get("err", "")[:100]} for i, v in verdicts.items() if v != 0]
    for b in bad[:3]:
        cm.violation(ctx, "failing-input", dict(b, what="the regions read from this annotation are not the ones its features denote"))
    if mism and not bad:
        for b in mism[:3]:
            cm.violation(ctx, "model-mismatch", dict(b, what="ConsumerModel (regions from the bytes of the annotation) and the code disagree on this file; "
                                                             "no annotation written from features was read wrongly"), no_failing_input=True)
    return {"region_files": len(items), "region_files_with_denoted_regions": sum(1 for it in items if it[2] is not None),
            "region_outcomes": classes, "region_model_mismatches": len(mism)}
