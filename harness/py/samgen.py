"""SAM generators and the statement-level oracle for `sam toMultiAlign` (C01, C15) and friends."""
import gen

QUERY_OPS = "MIS=X"      # consume query
REF_OPS = "MDN=X"        # consume reference


def random_cigar(rng, max_ref, rich=True):
    """A CIGAR (list of (op, len)) valid for biogo: [H][S] core [S][H]; core consumes 1..max_ref reference
    positions in total (possibly 0 aligned bases when rich)."""
    core = []
    ref_used = 0
    nops = rng.randint(1, 6)
    prev = None
    for _ in range(nops):
        ops = "MMM=XDINP" if rich else "MMMDI"
        op = rng.choice(ops)
        if op == prev:
            continue
        ln = rng.randint(1, 4)
        if op in REF_OPS:
            if ref_used + ln > max_ref:
                ln = max_ref - ref_used
                if ln <= 0:
                    break
            ref_used += ln
        core.append((op, ln))
        prev = op
    if not core:
        core = [("M", min(2, max_ref))] if max_ref > 0 else [("I", 1)]
        ref_used = core[0][1] if core[0][0] == "M" else 0
    pre, post = [], []
    if rng.random() < 0.25:
        pre.append(("S", rng.randint(1, 3)))
    if rng.random() < 0.25:
        post.append(("S", rng.randint(1, 3)))
    if rng.random() < 0.2:
        pre.insert(0, ("H", rng.randint(1, 5)))
    if rng.random() < 0.2:
        post.append(("H", rng.randint(1, 5)))
    return pre + core + post


def ref_span(cigar):
    return sum(l for o, l in cigar if o in REF_OPS)


def build_seq(rng, cigar, pos, truth):
    """SEQ for a record at 0-based pos: aligned bases come from `truth` (the query's own sequence in reference
    coordinates), inserted and soft-clipped bases are random."""
    out = []
    r = pos
    for o, l in cigar:
        if o in "M=X":
            out.append(truth[r:r + l])
            r += l
        elif o in "IS":
            out.append(gen.rand_seq(rng, l))
        elif o in "DN":
            r += l
    return "".join(out)


def make_query(rng, ref, name, nrec=None, conflict=False, rich=True):
    """Records (name, flag, pos0, cigar, seq) of one query."""
    n = len(ref)
    truth = gen.mutate(rng, ref, p_sub=0.1, p_amb=0.03, p_gap=0, p_lower=0).replace("?", "N")
    recs = []
    nrec = nrec or rng.choice([1, 1, 1, 2, 2, 3])
    for k in range(nrec):
        pos = rng.randint(0, max(0, n - 1))
        cig = random_cigar(rng, n - pos, rich)
        t = truth
        if conflict and k > 0 and rng.random() < 0.5:
            t = gen.mutate(rng, truth, p_sub=0.3, p_amb=0, p_gap=0, p_lower=0)
        seq = build_seq(rng, cig, pos, t)
        flag = 0 if k == 0 else 2048
        if rng.random() < 0.15:
            flag |= 16
        flag |= rng.choice([0, 0, 0, 0, 1 | 2 | 64, 1 | 32 | 128, 512, 1024])      # bits that say nothing about whether the record counts
        recs.append({"name": name, "flag": flag, "pos": pos, "cigar": cig, "seq": seq})
    return recs


def make_query_sandwich(rng, ref, name):
    """3-5 records of one query built around one contested stretch [a, b): two records put DIFFERENT bases on it, and
    records that do not put a base there (not covering it, deleting it with D, skipping it with N) sit before, between
    and after them in file order - every arrangement of {base, other base, '-', '*'} within a column gets exercised."""
    n = len(ref)
    truth = gen.mutate(rng, ref, p_sub=0.1, p_amb=0.03, p_gap=0, p_lower=0).replace("?", "N")
    a = rng.randint(0, n - 2)
    b = rng.randint(a + 1, min(n, a + 4))
    other = "".join(rng.choice([c for c in "ACGT" if c != truth[i]]) for i in range(a, b))
    alt = truth[:a] + other + truth[b:]

    def cover(t):
        s0 = rng.randint(max(0, a - 3), a)
        e0 = rng.randint(b, min(n, b + 3))
        cig = [("M", e0 - s0)]
        return {"name": name, "flag": 2048, "pos": s0, "cigar": cig, "seq": build_seq(rng, cig, s0, t)}

    def hole():
        kind = rng.choice(["away", "D", "N"])
        if kind == "away" and (a >= 1 or b < n):
            if a >= 1 and (b >= n or rng.random() < 0.5):
                e0 = rng.randint(1, a); s0 = rng.randint(0, e0 - 1)
            else:
                s0 = rng.randint(b, n - 1); e0 = rng.randint(s0 + 1, n)
            cig = [("M", e0 - s0)]
            return {"name": name, "flag": 2048, "pos": s0, "cigar": cig, "seq": build_seq(rng, cig, s0, truth)}
        op = "D" if kind == "D" else "N"
        if a >= 1 and b < n:
            cig = [("M", 1), (op, b - a), ("M", 1)]
            s0 = a - 1
        elif b < n:
            cig = [(op, b - a), ("M", 1)]
            s0 = a
        elif a >= 1:
            cig = [("M", 1), (op, b - a)]
            s0 = a - 1
        else:
            cig = [(op, b - a)]
            s0 = a
        return {"name": name, "flag": 2048, "pos": s0, "cigar": cig, "seq": build_seq(rng, cig, s0, truth)}

    order = rng.choice([["X", "h", "Y"], ["Y", "h", "X"], ["h", "X", "h", "Y"], ["X", "h", "h", "Y", "h"], ["X", "Y", "h"], ["h", "X", "Y"]])
    recs = []
    for k in order:
        recs.append(cover(truth) if k == "X" else cover(alt) if k == "Y" else hole())
    recs[0]["flag"] = 0
    return recs


def noise_record(rng, ref, name):
    """An unmapped (0x4) or secondary (0x100) record that must never contribute."""
    n = len(ref)
    if rng.random() < 0.5:
        pos = rng.randint(0, n - 1)
        cig = random_cigar(rng, n - pos)
        # secondary: bit 0x100 with any other bits beside it (QC-fail 0x200, duplicate 0x400, supplementary 0x800 as
        # `bwa mem -a` writes, reverse 0x10, pair bits)
        return {"name": name, "flag": 256 | rng.choice([0, 16]) | rng.choice([0, 0, 512, 1024, 2048, 2048 | 16, 1 | 2 | 64, 512 | 1024]), "pos": pos, "cigar": cig, "seq": build_seq(rng, cig, pos, gen.rand_seq(rng, n))}
    pos = rng.randint(0, n - 1)
    cig = random_cigar(rng, n - pos)
    return {"name": name, "flag": 4 | rng.choice([0, 0, 1 | 8 | 64, 512, 16, 256]), "pos": pos, "cigar": cig, "seq": build_seq(rng, cig, pos, gen.rand_seq(rng, n))}


def render_sam(refname, reflen, recs, header=True, trail=True):
    """trail=False: the last line is not terminated by a newline (a legal text file; editors and `printf` make them)."""
    out = []
    if header:
        out.append("@HD\tVN:1.6\tSO:unsorted")
        out.append("@SQ\tSN:%s\tLN:%d" % (refname, reflen))
    for r in recs:
        cig = "".join("%d%s" % (l, o) for o, l in r["cigar"]) or "*"
        seq = r["seq"] or "*"
        out.append("\t".join([r["name"], str(r["flag"]), refname, str(r["pos"] + 1), "60", cig, "*", "0", "0", seq, "*"]))
    return ("\n".join(out) + ("\n" if trail else "")).encode()


# ---------------------------------------------------------------- oracle from the statement (C01)

def project(rec, reflen):
    """cells at reference positions: None = not covered, '-' = deleted, else the aligned base."""
    cells = [None] * reflen
    r, q = rec["pos"], 0
    for o, l in rec["cigar"]:
        if o in "M=X":
            for k in range(l):
                if 0 <= r + k < reflen:
                    cells[r + k] = rec["seq"][q + k]
            r += l
            q += l
        elif o == "D":
            for k in range(l):
                if r + k < reflen:
                    cells[r + k] = "-"
            r += l
        elif o == "N":
            r += l
        elif o in "IS":
            q += l
    return cells


def blocks_of(recs):
    """Query blocks as the statement and the aligner define them: consecutive records of one name, unmapped and
    secondary records removed first."""
    use = [r for r in recs if not (r["flag"] & 4 or r["flag"] & 256)]
    blocks = []
    for r in use:
        if blocks and blocks[-1][0]["name"] == r["name"]:
            blocks[-1].append(r)
        else:
            blocks.append([r])
    return blocks


def expected_row(block, reflen, pad):
    cols = [project(r, reflen) for r in block]
    row = []
    for i in range(reflen):
        cs = [c[i] for c in cols]
        bases = {c for c in cs if c is not None and c != "-"}
        if len(bases) > 1:
            row.append("N")
        elif len(bases) == 1:
            row.append(bases.pop())
        elif "-" in cs:
            row.append("-")
        else:
            row.append(None)
    letters = [i for i, c in enumerate(row) if c is not None and c != "-"]
    out = []
    for i, c in enumerate(row):
        if c is not None:
            out.append(c)
        elif pad:
            out.append("N")
        elif not letters or i < letters[0] or i > letters[-1]:
            out.append("-")
        else:
            out.append("N")
    return "".join(out)


def expected_toma(recs, reflen, pad=False, start=-1, end=-1, wrap=0):
    out = []
    s = 1 if start == -1 else start
    e = reflen if end == -1 else end
    trim = start != -1 or end != -1
    for b in blocks_of(recs):
        row = expected_row(b, reflen, pad)
        if trim:
            if pad:
                row = "".join(c if s - 1 <= i < e else "N" for i, c in enumerate(row))
            else:
                row = row[s - 1:e]
        out.append(">" + b[0]["name"])
        if wrap > 0:
            out += [row[i:i + wrap] for i in range(0, len(row), wrap)]
        else:
            out.append(row)
    return ("\n".join(out) + "\n").encode() if out else b""


def coq_records(recs):
    import common as cm
    OPS = {"M": "OM", "I": "OI", "D": "OD", "N": "ON", "S": "OS", "H": "OH", "P": "OP", "=": "OEq", "X": "OX"}
    items = []
    for r in recs:
        cig = "[" + ";".join("(%s, %d%%nat)" % (OPS[o], l) for o, l in r["cigar"]) + "]"
        items.append("{| s_name := %s; s_flag := %d; s_pos := %d%%nat; s_cigar := %s; s_seq := %s |}" % (
            cm.cbytes(r["name"].encode()), r["flag"], r["pos"], cig, cm.cbytes(r["seq"].encode())))
    return "[" + ";".join(items) + "]"


# ---------------------------------------------------------------- toPairAlign (C02): non-conflicting blocks + oracle

def insertions_of(rec):
    """[(reference bases to the left, inserted bases)] of one record."""
    out = []
    r, q = rec["pos"], 0
    for o, l in rec["cigar"]:
        if o == "I":
            out.append((r, rec["seq"][q:q + l]))
            q += l
        elif o in "M=X":
            r += l
            q += l
        elif o == "S":
            q += l
        elif o in "DN":
            r += l
    return out


def nonconflicting(block):
    """The statement's precondition: insertion positions pairwise distinct across (and within) the records of a block."""
    seen = set()
    for rec in block:
        for p, _ in insertions_of(rec):
            if p in seen:
                return False
            seen.add(p)
    return True


def make_query_topa(rng, ref, name):
    """1-3 records of one query with agreeing bases and pairwise distinct insertion positions."""
    for _ in range(50):
        recs = make_query(rng, ref, name, conflict=False, rich=rng.random() < 0.7)
        if nonconflicting(recs):
            return recs
    return make_query(rng, ref, name, nrec=1, rich=False)


def expected_pair(block, ref, start=-1, end=-1, skip_ins=False):
    """(reference row, query row) from the statement."""
    n = len(ref)
    qpad = expected_row(block, n, pad=True)
    if skip_ins:
        R, Q = list(ref), list(qpad)
        cols = list(range(n))
    else:
        ins = {}
        for rec in block:
            for p, s in insertions_of(rec):
                ins[p] = s
        R, Q, cols = [], [], []
        for p in range(n + 1):
            if p in ins:
                R += ["-"] * len(ins[p])
                Q += list(ins[p])
            if p < n:
                cols.append(len(R))
                R.append(ref[p])
                Q.append(qpad[p])
    if start != -1 or end != -1:
        s = 1 if start == -1 else start
        e = n if end == -1 else end
        a, b = cols[s - 1], cols[e - 1] + 1
        R, Q = R[a:b], Q[a:b]
    return "".join(R), "".join(Q)


def wrap_text(s, w):
    if w <= 0:
        return s + "\n"
    return "".join(s[i:i + w] + "\n" for i in range(0, len(s), w))


def expected_topa(recs, ref, refname, wrap=0, start=-1, end=-1, omit_ref=False, skip_ins=False):
    out = []
    for b in blocks_of(recs):
        R, Q = expected_pair(b, ref.upper(), start, end, skip_ins)
        name = b[0]["name"]
        txt = ("" if omit_ref else ">" + refname + "\n" + wrap_text(R, wrap)) + ">" + name + "\n" + wrap_text(Q, wrap)
        out.append((name.replace("/", "_") + ".fasta", txt))
    return out
