"""./check --replay <file>: re-run exactly the case recorded in a replay file against the current tree and print both
what the implementation does now and what the replay recorded (statement-level expectation, oracle problems, Coq verdict)."""
import json
import os
import sys
import tempfile

import common as cm


def main(path):
    d = json.load(open(path))
    pid = d.get("property")
    print("replay of %s (%s, %s), seed %s, tier %s" % (path, d.get("kind"), d.get("verdict"), d.get("seed"), d.get("tier")))
    if d.get("what"):
        print("what: " + d["what"])
    log = lambda m: sys.stderr.write("[replay] %s\n" % m)
    cm.build_harness(log)
    rc = 0
    if isinstance(d.get("case"), dict) and "op" in d["case"]:
        case = dict(d["case"], id=0)
        obs = cm.go_run([case], log)[0]
        out = cm.unb64(obs.get("out", ""))
        print("--- implementation now: status=%s err=%s" % (obs["status"], obs.get("err", "")[:300]))
        print(out.decode("latin1"))
        old = d.get("go_observation") or {}
        print("--- recorded observation: status=%s" % old.get("status"))
        print(cm.unb64(old.get("out", "")).decode("latin1"))
        s = d.get("sample") or {}
        if s.get("expected_by_statement") is not None:
            print("--- expected by the statement:")
            print(s["expected_by_statement"])
            rc = 0 if out.decode("latin1") == s["expected_by_statement"] else 1
        if s.get("oracle_problems"):
            print("--- oracle problems recorded:")
            for p in s["oracle_problems"]:
                print("  " + p)
        if obs.get("out") == old.get("out") and obs["status"] == old.get("status"):
            print("=> the implementation still behaves as recorded in the replay")
            rc = 1
        else:
            print("=> the implementation's behaviour on this case has changed since the replay was recorded")
    elif d.get("argv"):
        binp = cm.build_binary(log)
        tmp = tempfile.mkdtemp(prefix="verif-replay-")
        files = d.get("files") or {}
        for n, c in files.items():
            open(os.path.join(tmp, n), "wb").write(c.encode("latin1"))
        argv = [os.path.join(tmp, a) if a in files else a for a in d["argv"]]
        env = dict(os.environ)
        for k, v in (d.get("env") or {}).items():
            env[k] = str(v)
        cls, code, out, err = cm.run_binary(binp, argv, env=env, timeout=60)
        print("--- gofasta %s -> %s (exit %s)" % (" ".join(d["argv"]), cls, code))
        print(out.decode("latin1")[:4000])
        print(err.decode("latin1")[-1000:])
        if d.get("reference_output") is not None:
            same = out.decode("latin1")[:3000] == d["reference_output"]
            print("=> output %s the recorded reference output" % ("equals" if same else "differs from"))
            rc = 0 if same else 1
        else:
            rc = 1 if cls in ("ok", "hang") else 0
    else:
        print(json.dumps({k: v for k, v in d.items() if k not in ("coq_log",)}, indent=1)[:6000])
        print("=> this replay names a proof obligation / correspondence that no longer checks; re-run ./check %s" % pid)
        rc = 1
    return rc
