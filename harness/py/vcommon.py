"""Shared case construction for the `variants` family (C04, C05, C13, C14, C15; C11 compares with sam variants)."""
import re
import common as cm
import gen
import anno

IMPORTS = ["Base", "Harness", "Check_C04"]
CHECK_FN = "check_variants"


def float_parts(x):
    """(kind, mantissa, exp2) of a Python float, the same decomposition the Go runner uses."""
    if x == 0:
        return (0, 0, 0)
    num, den = float(x).as_integer_ratio()
    kind = 1 if num > 0 else 2
    return (kind, abs(num), -(den.bit_length() - 1))


def coq_regions(regs):
    items = []
    for r in regs:
        items.append("(%s, %s, [%s]%%nat, %s)" % (cm.cbytes(r["name"].encode()), cm.cbool(r["strand"] == -1),
                                                  ";".join(str(p) for p in r["positions"]), cm.cbytes(r["translation"].encode())))
    return "[" + ";".join(items) + "]"


def variants_case(cid, msa, refid, annob, suffix, meta, start=-1, end=-1, aggregate=False, threshold=0.0,
                  append_snps=False, stdin=False, threads=1, sample=None, info=None):
    go = {"id": cid, "op": "variants", "msa": cm.b64(msa), "refid": refid, "anno": cm.b64(annob), "suffix": suffix,
          "start": start, "end": end, "aggregate": aggregate, "threshold": threshold, "append_snps": append_snps,
          "stdin": stdin, "threads": threads}

    def coq(obs):
        ex = obs.get("extra") or {}
        ref = cm.unb64(ex.get("ref", ""))
        regs = ex.get("regions") or []
        rid = (ex.get("refid") or refid).encode()
        k, m, e = float_parts(threshold)
        return "(%s, %s, %s, %s, (%s, %s, %s), ((%d)%%Z, (%d)%%Z), (%d, %d%%Z, (%d)%%Z), %s)" % (
            cm.cbytes(ref), cm.cbytes(rid), coq_regions(regs), cm.cbytes(msa), cm.cbool(aggregate), cm.cbool(append_snps),
            cm.cbool(stdin), start, end, k, m, e, cm.cgores(obs))
    s = {"msa": msa.decode("latin1"), "refid": refid, "suffix": suffix, "annotation": annob.decode("latin1"), "start": start, "end": end,
         "aggregate": aggregate, "threshold": threshold, "append_snps": append_snps, "stdin": stdin}
    if sample:
        s.update(sample)
    return {"id": cid, "go": go, "coq": coq, "meta": meta, "sample": s, "info": info or {}}


def random_setup(rng, allow_unnamed=False, codon_starts=False, mod3_segments=False, nq=None, insertions=True, rotate=0.0):
    """genome + features + msa rows."""
    n = rng.choice([30, 45, 60, 90])
    genome = gen.rand_seq(rng, n)
    feats = anno.random_features(rng, n, max_feats=3, allow_unnamed=allow_unnamed, codon_starts=codon_starts,
                                 mod3_segments=mod3_segments, rotate=rotate)
    genome, feats = anno.patch_stops(rng, genome, feats)
    nq = nq or rng.randint(1, 4)
    ref_row, rows = anno.make_msa(rng, genome, nq, with_insertions=insertions)
    return genome, feats, ref_row, rows


def wobble_codons(rng, genome, feats, ref_row, rows):
    """Rewrite one or two codons of a feature in some rows so that the query codon holds an IUPAC code and still translates
    unambiguously: a four-fold degenerate family with N (or another code) in the third position, a two-fold family with R/Y,
    MGR / YTR; the first two bases chosen so that the residue differs from the reference's."""
    col = [i for i, c in enumerate(ref_row) if c != "-"]
    rows = [list(r) for r in rows]
    fam = [p + x for p in ("AC", "CC", "CG", "CT", "GC", "GG", "GT", "TC") for x in "NNBDHVRY"] + \
          ["AAR", "AAY", "GAR", "GAY", "CAR", "CAY", "TTR", "TTY", "AGR", "AGY", "MGR", "YTR", "ATH", "TAR"]
    for row in rows:
        if rng.random() < 0.3:
            continue
        for _ in range(rng.randint(1, 2)):
            f = rng.choice(feats)
            ps = f.positions()
            if len(ps) < 6:
                continue
            ci = rng.randrange(len(ps) // 3 - 1)           # not the stop codon
            trip = ps[3 * ci:3 * ci + 3]
            cod = rng.choice(fam)
            if f.strand == "-":
                cod = "".join(anno.COMP.get(c, c) for c in cod)
            for p, ch in zip(trip, cod):
                row[col[p - 1]] = ch
    return ["".join(r) for r in rows]


def build_msa(rng, ref_row, rows, refpos="first", refname="REF", style=None):
    recs = [("q%d" % i, r) for i, r in enumerate(rows)]
    if refpos == "first":
        recs.insert(0, (refname, ref_row))
    elif refpos == "middle":
        recs.insert(len(recs) // 2 + (1 if len(recs) > 1 else 0), (refname, ref_row))
    elif refpos == "last":
        recs.append((refname, ref_row))
    return gen.layout(rng, recs, style), recs


# ------------------------------------------------------------------ statement-level oracles on the output

def oracle_rows(c, obs, check_complete):
    """C04/C05 oracle on per-sequence output.  Returns a list of problem strings (empty = fine)."""
    info = c["info"]
    if obs["status"] != "ok" or c["go"]["aggregate"]:
        return []
    header, rows = anno.parse_rows(cm.unb64(obs["out"]))
    probs = []
    expected_names = [n for n, _ in info["queries"]]
    if [n for n, _ in rows] != expected_names:
        probs.append("rows %r, expected one per query in input order %r" % ([n for n, _ in rows], expected_names))
        return probs
    ref_row = info["ref_row"]
    genome = "".join(c for c in ref_row if c != "-")
    s, e = c["go"]["start"], c["go"]["end"]
    inwin = lambda p: not ((s > 0 and p < s) or (e > 0 and p > e))
    feats = {f.name: f for f in info["features"] if f.named or info.get("genbank")}
    for (name, muts), (_, qrow) in zip(rows, info["queries"]):
        # C05: indels
        got_indels = [tuple([m.split(":")[0]] + [int(x) for x in m.split(":")[1:]]) for m in muts if m[:4] in ("ins:", "del:")]
        exp_indels = [t for t in anno.expected_indels(ref_row, qrow) if inwin(t[1])]
        if sorted(got_indels) != sorted(exp_indels):
            probs.append("%s: indels %r, expected %r" % (name, sorted(got_indels), sorted(exp_indels)))
        # C04: nucleotide differences
        dis = anno.disjoint_positions(ref_row, qrow)
        men = anno.mentioned_positions(muts)
        if check_complete:
            # an aa record sits at its codon's first position, so its (nuc:...) members may lie up to two bases
            # outside the window; compare on positions the window certainly covers or certainly excludes
            if s <= 0 and e <= 0 and men != dis:
                probs.append("%s: mentions %r, disjoint positions %r" % (name, sorted(men), sorted(dis)))
        if not men <= dis:
            probs.append("%s: invented positions %r" % (name, sorted(men - dis)))
        for m in muts:
            if m.startswith("nuc:"):
                mm = re.match(r"nuc:(.)(-?\d+)(.)$", m)
                p = int(mm.group(2))
                qsym = anno.ref_coords(ref_row, qrow)[p - 1].upper()
                if mm.group(1) != genome[p - 1].upper() or mm.group(3) != qsym:
                    probs.append("%s: %s does not name the symbols at %d (%s,%s)" % (name, m, p, genome[p - 1], qsym))
        # C04: aa records are true translations, and none is missing
        qref = anno.ref_coords(ref_row, qrow)
        got_aa = set()
        for m in muts:
            if m.startswith("aa:"):
                mm = re.match(r"aa:([^:]*):(.)(\d+)(.)(\(.*\))?$", m)
                got_aa.add((mm.group(1), mm.group(2), int(mm.group(3)), mm.group(4)))
        exp_aa = set()
        for f in feats.values():
            ps = f.positions()
            for k in range(len(ps) // 3):
                cod_pos = ps[3 * k:3 * k + 3]
                rc = "".join(genome[p - 1] for p in cod_pos)
                qc = "".join(qref[p - 1] for p in cod_pos).upper()
                if f.strand == "-":
                    rc = "".join(anno.COMP[x] for x in rc)
                    qc = "".join(anno.COMP.get(x, x) for x in qc)
                R = anno.STD[rc]
                Q = anno.translate_codon(qc)
                first = cod_pos[0] if f.strand == "+" else cod_pos[2] + 2
                if Q is not None and Q != R and inwin(first):
                    exp_aa.add((f.name, R, k + 1, Q))
        if s <= 0 and e <= 0:
            if got_aa != exp_aa:
                probs.append("%s: aa records %r, expected %r" % (name, sorted(got_aa), sorted(exp_aa)))
        elif not got_aa <= {x for x in exp_aa} | got_aa & exp_aa and False:
            pass
    return probs


# ------------------------------------------------------------------ the closest command through the built binary

def closest_cmd_layer(ctx, cm, gen, n_inputs=3):
    """`gofasta closest` through the built binary: the measure option is case-insensitive (the cmd layer validates its lower-cased
    form), with and without -n / -d / --table; and the binary's bytes equal the library entry point's (the one the Coq model
    is compared with) for the lower-case spelling.  Returns the number of runs."""
    import os, shutil, tempfile
    binp = cm.build_binary(ctx.log)
    if not binp:
        cm.violation(ctx, "binary-build", {"what": "gofasta does not build"}, no_failing_input=True)
        return 0
    rng = ctx.rng
    runs = 0
    tmp = tempfile.mkdtemp(prefix="verif-closest-")
    try:
        for k in range(n_inputs):
            w = rng.choice([12, 30])
            ref = gen.rand_seq(rng, w)
            qrecs = [("q%d" % i, gen.mutate(rng, ref, p_sub=0.15, p_amb=0.05, p_gap=0.03, p_lower=0.05)) for i in range(2)]
            trecs = [("t%d" % i, gen.mutate(rng, ref, p_sub=0.2, p_amb=0.05, p_gap=0.03, p_lower=0.05)) for i in range(rng.randint(3, 7))]
            qb, tb = gen.layout(rng, qrecs, "plain"), gen.layout(rng, trecs, "plain")
            qp, tp = os.path.join(tmp, "q%d.fasta" % k), os.path.join(tmp, "t%d.fasta" % k)
            open(qp, "wb").write(qb)
            open(tp, "wb").write(tb)
            K = rng.randint(1, len(trecs))
            shapes = [([], {"n": 0}), (["-n", str(K)], {"n": K}), (["-n", str(K), "--table"], {"n": K, "table": True}), (["-d", "0.2"], {"n": 0, "maxdist": 0.2})]
            for measure in ("raw", "snp", "tn93"):
                for extra_args, libopts in shapes:
                    base = cm.run_binary(binp, ["closest", "--query", qp, "--target", tp, "-m", measure] + extra_args)
                    runs += 1
                    lib = cm.go_run([dict({"id": 0, "op": "closest", "query": cm.b64(qb), "target": cm.b64(tb), "measure": measure,
                                           "table": False, "threads": 1}, **libopts)], ctx.log)[0]
                    if base[0] != "ok" or lib["status"] != "ok" or base[2] != cm.unb64(lib["out"]):
                        cm.violation(ctx, "failing-input", {"what": "gofasta closest -m %s %s: the binary's output differs from the library entry point's" % (measure, " ".join(extra_args)),
                                                            "query": qb.decode(), "target": tb.decode(), "binary": [base[0], base[2].decode("latin1")[:600]],
                                                            "library": [lib["status"], cm.unb64(lib.get("out", "")).decode("latin1")[:600]]})
                        return runs
                    for spelled in (measure.upper(), measure.capitalize()):
                        alt = cm.run_binary(binp, ["closest", "--query", qp, "--target", tp, "-m", spelled] + extra_args)
                        runs += 1
                        if alt[0] != base[0] or alt[2] != base[2]:
                            cm.violation(ctx, "failing-input", {"what": "gofasta closest -m %s %s differs from -m %s (the measure option is case-insensitive)" % (spelled, " ".join(extra_args), measure),
                                                                "query": qb.decode(), "target": tb.decode(), "with_%s" % spelled: [alt[0], alt[2].decode("latin1")[:600]],
                                                                "with_%s" % measure: [base[0], base[2].decode("latin1")[:600]]})
                            return runs
        # -d D is "distance <= D" on the float64 the text D denotes: targets exactly AT the threshold, for thresholds that single
        # precision would round down (0.01, 0.7, 0.003) and up (0.1, 0.2) - 100 resolved columns, k differences = distance k/100
        q100 = "ACGT" * 25
        def with_diffs(kd):
            t = list(q100)
            for j in range(kd):
                t[j] = "A" if t[j] != "A" else "C"
            return "".join(t)
        qb = gen.layout(rng, [("q", q100)], "plain")
        tb = gen.layout(rng, [("t%d" % kd, with_diffs(kd)) for kd in (2, 1, 0, 3, 10, 20, 70)], "plain")
        qp, tp = os.path.join(tmp, "q100.fasta"), os.path.join(tmp, "t100.fasta")
        open(qp, "wb").write(qb)
        open(tp, "wb").write(tb)
        for d in ("0.01", "0.7", "0.1", "0.2", "0.03", "0.003", "0"):
            for extra_args, libopts in ((["-d", d, "--table"], {"n": 0, "maxdist": float(d), "table": True}), (["-n", "3", "-d", d], {"n": 3, "maxdist": float(d)})):
                base = cm.run_binary(binp, ["closest", "--query", qp, "--target", tp, "-m", "raw"] + extra_args)
                runs += 1
                lib = cm.go_run([dict({"id": 0, "op": "closest", "query": cm.b64(qb), "target": cm.b64(tb), "measure": "raw", "table": False, "threads": 1}, **libopts)], ctx.log)[0]
                if base[0] != "ok" or lib["status"] != "ok" or base[2] != cm.unb64(lib["out"]):
                    cm.violation(ctx, "failing-input", {"what": "gofasta closest -m raw %s on targets at distances 0, 0.01, 0.02, 0.03, 0.1, 0.2, 0.7: the binary's output differs from the library entry point's" % " ".join(extra_args),
                                                        "query": qb.decode(), "target": tb.decode(), "binary": [base[0], base[2].decode("latin1")[:600]],
                                                        "library": [lib["status"], cm.unb64(lib.get("out", "")).decode("latin1")[:600]]})
                    return runs
    finally:
        shutil.rmtree(tmp, ignore_errors=True)
    return runs


# ------------------------------------------------------------------ the SAM form of a pairwise relation

def cigar_of(ref, que):
    """CIGAR of the pairwise relation between a gapped reference row and a query row (columns that are gaps in both skipped)."""
    ops = []
    for r, q in zip(ref, que):
        if r == "-" and q == "-":
            continue
        o = "I" if r == "-" else "D" if q == "-" else "M"
        if ops and ops[-1][0] == o:
            ops[-1] = (o, ops[-1][1] + 1)
        else:
            ops.append((o, 1))
    return ops


def cigar_eqx(ref, que):
    """the same relation in the extended CIGAR alphabet (minimap2 --eqx): = where the two rows hold the same letter, X where not"""
    ops = []
    for r, q in zip(ref, que):
        if r == "-" and q == "-":
            continue
        o = "I" if r == "-" else "D" if q == "-" else "=" if r.upper() == q.upper() else "X"
        if ops and ops[-1][0] == o:
            ops[-1] = (o, ops[-1][1] + 1)
        else:
            ops.append((o, 1))
    return ops


def split_records(rng, name, ref, que):
    """The pairwise relation as 2-3 SAM records (primary + supplementary) that tile it: cut between two columns that both
    hold a reference base and a query base, the other part hard-clipped; sometimes a soft clip in front of the first."""
    cols = [(r, q) for r, q in zip(ref, que) if not (r == "-" and q == "-")]
    ok = [i for i in range(1, len(cols)) if all(a != "-" and b != "-" for a, b in (cols[i - 1], cols[i]))]
    if not ok:
        return None
    cuts = sorted(rng.sample(ok, min(len(ok), rng.choice([1, 1, 2]))))
    parts, prev = [], 0
    for c in cuts + [len(cols)]:
        parts.append(cols[prev:c])
        prev = c
    nq = [sum(1 for r, q in p if q != "-") for p in parts]
    recs, refpos = [], 0
    for k, p in enumerate(parts):
        cig = cigar_of("".join(r for r, _ in p), "".join(q for _, q in p))
        seq = "".join(q for _, q in p if q != "-").upper()
        before, after = sum(nq[:k]), sum(nq[k + 1:])
        if before:
            cig = [("H", before)] + cig
        if after:
            cig = cig + [("H", after)]
        if k == 0 and rng.random() < 0.35:
            clip = rng.randint(1, 3)
            cig = [("S", clip)] + cig
            seq = "".join(rng.choice("ACGT") for _ in range(clip)) + seq
        recs.append({"name": name, "flag": 0 if k == 0 else 2048, "pos": refpos, "cigar": cig, "seq": seq})
        refpos += sum(1 for r, _ in p if r != "-")
    return recs


def sam_form_stage(ctx, cm, gen, samgen, anno, cases, obs, bad, get_pairs):
    """Every case's pairwise relations written as one SAM record per query, as 2-3 tiling records per query (sometimes
    behind a soft clip), and as one record per query in the extended CIGAR alphabet (= / X for M), and given to `sam variants` (one worker): its rows must equal the rows `variants` printed for the
    FASTA-MSA form.  Returns the number of runs."""
    stage, plan = [], []
    for c in cases:
        pairs = get_pairs(c)
        if not pairs or obs[c["id"]]["status"] != "ok":
            continue
        genome = c["info"]["genome"]
        recs = [{"name": nm, "flag": 0, "pos": 0, "cigar": cigar_of(ref, que), "seq": que.replace("-", "").upper()} for nm, ref, que in pairs]
        if any(not r["seq"] or not r["cigar"] for r in recs):
            continue
        # the same relations again with every query split into primary + supplementary records that tile it
        split = []
        for nm, ref, que in pairs:
            sr = split_records(ctx.rng, nm, ref, que)
            split += sr if sr else [r for r in recs if r["name"] == nm]
        refb = gen.layout(ctx.rng, [("REF", genome)], "plain")
        g = c["go"]
        eqx = [dict(r, cigar=cigar_eqx(ref, que)) for r, (nm, ref, que) in zip(recs, pairs)]
        for rs in (recs, split, eqx):
            samb = samgen.render_sam("REF", len(genome), rs)
            stage.append({"id": len(stage), "op": "samvariants", "sam": cm.b64(samb), "ref": cm.b64(refb), "anno": cm.b64(c["info"]["annob"]),
                          "suffix": c["info"]["suffix"], "ref_from_file": True, "start": g.get("start", -1), "end": g.get("end", -1),
                          "append_snps": g.get("append_snps", False), "aggregate": False, "threads": 1})
            plan.append((c, samb))
    if not stage:
        return 0
    res = cm.go_run(stage, ctx.log)
    for k, (c, samb) in enumerate(plan):
        o = res[k]
        msa_rows = dict(anno.parse_rows(cm.unb64(obs[c["id"]]["out"]))[1])
        probs = []
        if o["status"] != "ok":
            probs.append("sam variants refused the SAM form of the same alignment: %s %s" % (o["status"], o.get("err", "")[:200]))
        else:
            for name, muts in anno.parse_rows(cm.unb64(o["out"]))[1]:
                if msa_rows.get(name) != muts:
                    probs.append("%s: SAM form reports %r, FASTA-MSA form reports %r" % (name, muts, msa_rows.get(name)))
        if probs:
            c["sample"].setdefault("oracle_problems", [])
            c["sample"]["oracle_problems"] += probs[:3]
            c["sample"]["sam_form"] = samb.decode()
            if c not in bad:
                bad.append(c)
    return len(stage)
