"""Shared case construction for the `variants` family (C04, C05, C13, C14, C15; C11 compares with sam variants)."""
import re
import common as cm
import gen
import anno

IMPORTS = ["Base", "Harness", "Check_C04"]
CHECK_FN = "check_variants"


def float_parts(x):
    """(kind, mantissa, exp2) of a Python float, the same decomposition the Go runner uses."""
    if x == 0:
        return (0, 0, 0)
    num, den = float(x).as_integer_ratio()
    kind = 1 if num > 0 else 2
    return (kind, abs(num), -(den.bit_length() - 1))


def coq_regions(regs):
    items = []
    for r in regs:
        items.append("(%s, %s, [%s]%%nat, %s)" % (cm.cbytes(r["name"].encode()), cm.cbool(r["strand"] == -1),
                                                  ";".join(str(p) for p in r["positions"]), cm.cbytes(r["translation"].encode())))
    return "[" + ";".join(items) + "]"


def variants_case(cid, msa, refid, annob, suffix, meta, start=-1, end=-1, aggregate=False, threshold=0.0,
                  append_snps=False, stdin=False, threads=1, sample=None, info=None):
    go = {"id": cid, "op": "variants", "msa": cm.b64(msa), "refid": refid, "anno": cm.b64(annob), "suffix": suffix,
          "start": start, "end": end, "aggregate": aggregate, "threshold": threshold, "append_snps": append_snps,
          "stdin": stdin, "threads": threads}

    def coq(obs):
        ex = obs.get("extra") or {}
        ref = cm.unb64(ex.get("ref", ""))
        regs = ex.get("regions") or []
        rid = (ex.get("refid") or refid).encode()
        k, m, e = float_parts(threshold)
        return "(%s, %s, %s, %s, (%s, %s, %s), ((%d)%%Z, (%d)%%Z), (%d, %d%%Z, (%d)%%Z), %s)" % (
            cm.cbytes(ref), cm.cbytes(rid), coq_regions(regs), cm.cbytes(msa), cm.cbool(aggregate), cm.cbool(append_snps),
            cm.cbool(stdin), start, end, k, m, e, cm.cgores(obs))
    s = {"msa": msa.decode("latin1"), "refid": refid, "suffix": suffix, "annotation": annob.decode("latin1"), "start": start, "end": end,
         "aggregate": aggregate, "threshold": threshold, "append_snps": append_snps, "stdin": stdin}
    if sample:
        s.update(sample)
    return {"id": cid, "go": go, "coq": coq, "meta": meta, "sample": s, "info": info or {}}


def random_setup(rng, allow_unnamed=False, codon_starts=False, mod3_segments=False, nq=None, insertions=True):
    """genome + features + msa rows."""
    n = rng.choice([30, 45, 60, 90])
    genome = gen.rand_seq(rng, n)
    feats = anno.random_features(rng, n, max_feats=3, allow_unnamed=allow_unnamed, codon_starts=codon_starts,
                                 mod3_segments=mod3_segments)
    genome, feats = anno.patch_stops(rng, genome, feats)
    nq = nq or rng.randint(1, 4)
    ref_row, rows = anno.make_msa(rng, genome, nq, with_insertions=insertions)
    return genome, feats, ref_row, rows


def build_msa(rng, ref_row, rows, refpos="first", refname="REF", style=None):
    recs = [("q%d" % i, r) for i, r in enumerate(rows)]
    if refpos == "first":
        recs.insert(0, (refname, ref_row))
    elif refpos == "middle":
        recs.insert(len(recs) // 2 + (1 if len(recs) > 1 else 0), (refname, ref_row))
    elif refpos == "last":
        recs.append((refname, ref_row))
    return gen.layout(rng, recs, style), recs


# ------------------------------------------------------------------ statement-level oracles on the output

def oracle_rows(c, obs, check_complete):
    """C04/C05 oracle on per-sequence output.  Returns a list of problem strings (empty = fine)."""
    info = c["info"]
    if obs["status"] != "ok" or c["go"]["aggregate"]:
        return []
    header, rows = anno.parse_rows(cm.unb64(obs["out"]))
    probs = []
    expected_names = [n for n, _ in info["queries"]]
    if [n for n, _ in rows] != expected_names:
        probs.append("rows %r, expected one per query in input order %r" % ([n for n, _ in rows], expected_names))
        return probs
    ref_row = info["ref_row"]
    genome = "".join(c for c in ref_row if c != "-")
    s, e = c["go"]["start"], c["go"]["end"]
    inwin = lambda p: not ((s > 0 and p < s) or (e > 0 and p > e))
    feats = {f.name: f for f in info["features"] if f.named or info.get("genbank")}
    for (name, muts), (_, qrow) in zip(rows, info["queries"]):
        # C05: indels
        got_indels = [tuple([m.split(":")[0]] + [int(x) for x in m.split(":")[1:]]) for m in muts if m[:4] in ("ins:", "del:")]
        exp_indels = [t for t in anno.expected_indels(ref_row, qrow) if inwin(t[1])]
        if sorted(got_indels) != sorted(exp_indels):
            probs.append("%s: indels %r, expected %r" % (name, sorted(got_indels), sorted(exp_indels)))
        # C04: nucleotide differences
        dis = anno.disjoint_positions(ref_row, qrow)
        men = anno.mentioned_positions(muts)
        if check_complete:
            # an aa record sits at its codon's first position, so its (nuc:...) members may lie up to two bases
            # outside the window; compare on positions the window certainly covers or certainly excludes
            if s <= 0 and e <= 0 and men != dis:
                probs.append("%s: mentions %r, disjoint positions %r" % (name, sorted(men), sorted(dis)))
        if not men <= dis:
            probs.append("%s: invented positions %r" % (name, sorted(men - dis)))
        for m in muts:
            if m.startswith("nuc:"):
                mm = re.match(r"nuc:(.)(-?\d+)(.)$", m)
                p = int(mm.group(2))
                qsym = anno.ref_coords(ref_row, qrow)[p - 1].upper()
                if mm.group(1) != genome[p - 1].upper() or mm.group(3) != qsym:
                    probs.append("%s: %s does not name the symbols at %d (%s,%s)" % (name, m, p, genome[p - 1], qsym))
        # C04: aa records are true translations, and none is missing
        qref = anno.ref_coords(ref_row, qrow)
        got_aa = set()
        for m in muts:
            if m.startswith("aa:"):
                mm = re.match(r"aa:([^:]*):(.)(\d+)(.)(\(.*\))?$", m)
                got_aa.add((mm.group(1), mm.group(2), int(mm.group(3)), mm.group(4)))
        exp_aa = set()
        for f in feats.values():
            ps = f.positions()
            for k in range(len(ps) // 3):
                cod_pos = ps[3 * k:3 * k + 3]
                rc = "".join(genome[p - 1] for p in cod_pos)
                qc = "".join(qref[p - 1] for p in cod_pos).upper()
                if f.strand == "-":
                    rc = "".join(anno.COMP[x] for x in rc)
                    qc = "".join(anno.COMP.get(x, x) for x in qc)
                R = anno.STD[rc]
                Q = anno.translate_codon(qc)
                first = cod_pos[0] if f.strand == "+" else cod_pos[2] + 2
                if Q is not None and Q != R and inwin(first):
                    exp_aa.add((f.name, R, k + 1, Q))
        if s <= 0 and e <= 0:
            if got_aa != exp_aa:
                probs.append("%s: aa records %r, expected %r" % (name, sorted(got_aa), sorted(exp_aa)))
        elif not got_aa <= {x for x in exp_aa} | got_aa & exp_aa and False:
            pass
    return probs
