"""Annotation / alignment generators and statement-level oracles for the variants family
(C04, C05, C11, C13, C14, C15).  The oracles are written from the property statements (IUPAC base
sets, the standard genetic code) and share nothing with the Coq model or the Go code."""
import itertools
import random
import zlib

IUPAC = {"A": "A", "C": "C", "G": "G", "T": "T", "R": "AG", "Y": "CT", "S": "CG", "W": "AT", "K": "GT", "M": "AC",
         "B": "CGT", "D": "AGT", "H": "ACT", "V": "ACG", "N": "ACGT", "?": "ACGT", "-": "ACGT"}
COMP = {"A": "T", "C": "G", "G": "C", "T": "A", "R": "Y", "Y": "R", "S": "S", "W": "W", "K": "M", "M": "K",
        "B": "V", "V": "B", "D": "H", "H": "D", "N": "N", "?": "?", "-": "-"}
_B = "TCAG"
_AAS = "FFLLSSSSYY**CC*WLLLLPPPPHHQQRRRRIIIMTTTTNNKKSSRRVVVVAAAADDEEGGGG"
STD = {a + b + c: _AAS[16 * i + 4 * j + k] for i, a in enumerate(_B) for j, b in enumerate(_B) for k, c in enumerate(_B)}
STOPS = ["TAA", "TAG", "TGA"]


def disjoint(a, b):
    a, b = a.upper(), b.upper()
    return not (set(IUPAC[a]) & set(IUPAC[b]))


def translate_codon(cod):
    """Unique product of all expansions of an IUPAC codon, or None."""
    cod = cod.upper()
    if any(c not in IUPAC or c in "-?" for c in cod):
        # '-' and '?' are not nucleotide codes for translation purposes: a codon containing them has no product
        return None
    prods = {STD[x + y + z] for x in IUPAC[cod[0]] for y in IUPAC[cod[1]] for z in IUPAC[cod[2]]}
    return prods.pop() if len(prods) == 1 else None


def revcomp(s):
    return "".join(COMP[c] for c in reversed(s))


class Feature:
    def __init__(self, name, strand, segments, codon_start=1, named=True):
        self.name, self.strand, self.segments, self.codon_start, self.named = name, strand, segments, codon_start, named

    def positions(self):
        """1-based positions in translation order, after codon_start."""
        ps = []
        if self.strand == "+":
            for a, b in self.segments:
                ps += list(range(a, b + 1))
        else:
            for a, b in reversed(self.segments):
                ps += list(range(b, a - 1, -1))
        return ps[self.codon_start - 1:]

    def coding(self, genome):
        s = "".join(genome[p - 1] for p in self.positions())
        if self.strand == "-":
            s = "".join(COMP[c] for c in s)
        return s

    def translation(self, genome):
        cds = self.coding(genome)
        return "".join(STD[cds[i:i + 3]] for i in range(0, len(cds) - len(cds) % 3, 3))

    def gb_location(self, form=0):
        segs = ["%d..%d" % s for s in self.segments]
        if self.strand == "+":
            return segs[0] if len(segs) == 1 else "join(" + ",".join(segs) + ")"
        if len(segs) == 1:
            return "complement(" + segs[0] + ")"
        if form == 0:
            return "complement(join(" + ",".join(segs) + "))"
        return "join(" + ",".join("complement(" + s + ")" for s in reversed(segs)) + ")"


def random_features(rng, n, max_feats=3, allow_unnamed=False, codon_starts=False, mod3_segments=False, rotate=0.0):
    """Random coding features on a genome of length n (segments non-overlapping within a feature; listed in ascending
    order, or, with probability `rotate` for a joined feature, rotated as for a gene spanning the origin of a circular
    genome: join(40..50,1..10))."""
    feats = []
    for k in range(rng.randint(1, max_feats)):
        strand = rng.choice("+-")
        nseg = rng.choice([1, 1, 2, 3])
        total_codons = rng.randint(2, 6)
        cs = rng.choice([1, 2, 3]) if codon_starts and rng.random() < 0.3 else 1
        total = total_codons * 3 + (cs - 1)
        # split total into nseg parts
        if nseg > total:
            nseg = 1
        while True:
            cuts = sorted(rng.sample(range(1, total), nseg - 1)) if nseg > 1 else []
            lens = [b - a for a, b in zip([0] + cuts, cuts + [total])]
            if not mod3_segments or all(l % 3 == 0 for l in lens) or nseg == 1:
                break
            if total % 3 != 0 or total // 3 < nseg:
                nseg = 1
                continue
            parts = sorted(rng.sample(range(1, total // 3), nseg - 1))
            lens = [3 * (b - a) for a, b in zip([0] + parts, parts + [total // 3])]
            break
        # the segments of a join are apart, or (a -1 frameshift, join(266..13468,13468..21555)) share one base
        gaps = [rng.choice([1, 2, 3, 4, -1]) if lens[i] >= 2 else rng.randint(1, 4) for i in range(nseg - 1)]      # (rows of one feature keep distinct starts)
        span = sum(lens) + sum(gaps)
        if span > n - 2:
            continue
        start = rng.randint(1, n - span + 1)
        segs = []
        p = start
        for i, l in enumerate(lens):
            segs.append((p, p + l - 1))
            p += l + (gaps[i] if i < len(gaps) else 0)
        named = not (allow_unnamed and rng.random() < 0.3)
        if len(segs) > 1 and rng.random() < rotate:
            r = rng.randint(1, len(segs) - 1)
            segs = segs[r:] + segs[:r]
        feats.append(Feature("g%d" % (k + 1), strand, segs, cs, named))
    return feats


def patch_stops(rng, genome, feats):
    """Make every feature end in a stop codon on its strand (later features win on overlap); features that
    cannot be made consistent are dropped."""
    g = list(genome)
    for f in feats:
        ps = f.positions()
        if len(ps) % 3 != 0:
            continue
        stop = rng.choice(STOPS)
        last = ps[-3:]
        for p, c in zip(last, stop):
            g[p - 1] = COMP[c] if f.strand == "-" else c
    genome = "".join(g)
    ok = []
    for f in feats:
        ps = f.positions()
        if len(ps) % 3 == 0 and len(ps) >= 6 and f.coding(genome)[-3:] in STOPS:
            ok.append(f)
    return genome, ok


def render_genbank(genome, feats, rng=None):
    out = ["LOCUS       TEST   %d bp" % len(genome), "DEFINITION  test.", "FEATURES             Location/Qualifiers",
           "     source          1..%d" % len(genome), '                     /organism="test"']
    def other_feature():
        # features that are not CDS, some with keys that do not begin with a letter, carrying qualifiers a CDS also has:
        # none of them belongs to, or says anything about, the coding features around it
        key = rng.choice(["gene", "5'UTR", "3'UTR", "mat_peptide", "-10_signal", "-35_signal", "misc_feature", "stem_loop"])
        a = rng.randint(1, max(1, len(genome) - 3))
        lines = ["     %-15s %d..%d" % (key, a, min(len(genome), a + rng.randint(0, 5)))]
        for q in rng.sample(['/gene="zz%d"' % rng.randint(0, 9), "/codon_start=%d" % rng.randint(2, 3), '/translation="MKV"', '/note="x y"', '/product="p"'], rng.randint(0, 3)):
            lines.append("                     " + q)
        return lines
    for f in feats:
        form = rng.randint(0, 1) if rng else 0
        if rng and rng.random() < 0.35:
            out += other_feature()
        loc = f.gb_location(form)
        # a flat file continues a long location on the next line, after a comma (repair D23); the choice of the break is
        # drawn from the text itself so that the stream of `rng` is what it was
        cuts = [i + 1 for i, c in enumerate(loc) if c == "," and i + 1 < len(loc)]
        wr = random.Random(zlib.crc32(loc.encode()))
        parts, prev = [], 0
        if rng and cuts and (len(loc) > 58 or wr.random() < 0.5):
            for c in sorted(wr.sample(cuts, wr.randint(1, min(3, len(cuts))))):
                if c - prev <= 58 or not parts:
                    parts.append(loc[prev:c])
                    prev = c
        parts.append(loc[prev:])
        out.append("     CDS             " + parts[0])
        for part in parts[1:]:
            out.append("                     " + part)
        out.append('                     /gene="%s"' % f.name)
        out.append("                     /codon_start=%d" % f.codon_start)
        tr = f.translation(genome)[:-1]
        tw = 40 if zlib.crc32(genome.encode()) % 3 else 4          # a quoted value may be cut into lines anywhere: short proteins too
        lines = [tr[i:i + tw] for i in range(0, len(tr), tw)] or [""]
        if len(lines) == 1:
            out.append('                     /translation="%s"' % lines[0])
        else:
            out.append('                     /translation="%s' % lines[0])
            for l in lines[1:-1]:
                out.append("                     " + l)
            out.append('                     %s"' % lines[-1])
        if rng and rng.random() < 0.35:
            out += other_feature()
    out.append("ORIGIN")
    low = genome.lower()
    for i in range(0, len(low), 60):
        chunk = low[i:i + 60]
        out.append("%9d %s" % (i + 1, " ".join(chunk[j:j + 10] for j in range(0, len(chunk), 10))))
    out.append("//")
    # flat files are also met as fixed-length 80-column records: every line padded with blanks (decided by the text itself, so that
    # the stream of `rng` is what it was)
    if rng and zlib.crc32(genome.encode()) % 5 < 2:
        out = [l.ljust(80) for l in out]
    return ("\n".join(out) + "\n").encode()


def gff_rows(f):
    """(start, end, phase) per segment in FILE order (ascending coordinates), with GFF3-spec phases."""
    order = f.segments if f.strand == "+" else list(reversed(f.segments))
    phases = {}
    consumed = 0           # bases before this segment in translation order
    for seg in order:
        if consumed == 0:
            ph = f.codon_start - 1
        else:
            ph = (3 - ((consumed - (f.codon_start - 1)) % 3)) % 3
        phases[seg] = ph
        consumed += seg[1] - seg[0] + 1
    return [(a, b, phases[(a, b)]) for a, b in f.segments]


def render_gff(genome, feats, seqid="ref", with_fasta=True, seqregion=True, mix=None):
    """mix: a PRNG; with probability 0.4 the rows of one feature are listed in descending or random order, and with
    probability 0.4 the rows of different features are interleaved (as in a coordinate-sorted GFF3 where a joined CDS has
    another feature's row between its rows).  Features must list their segments in ascending order (a rotated,
    origin-spanning join has no GFF3 equivalent made of plain rows)."""
    assert all(list(f.segments) == sorted(f.segments) for f in feats), "rotated join rendered as GFF3"
    out = ["##gff-version 3"]
    if seqregion:
        out.append("##sequence-region %s 1 %d" % (seqid, len(genome)))
    queues = []
    for i, f in enumerate(feats):
        q = []
        rows_f = gff_rows(f)
        noid = mix is not None and len(rows_f) == 1 and f.named and mix.random() < 0.35      # a one-row feature needs no ID
        for a, b, ph in rows_f:
            attrs = ("Name=%s" % f.name) if noid else "ID=cds%d" % i + (";Name=%s" % f.name if f.named else "")
            q.append("\t".join([seqid, "test", "CDS", str(a), str(b), ".", f.strand, str(ph), attrs]))
        queues.append(q)
    if mix is not None:
        for q in queues:
            if len(q) > 1 and mix.random() < 0.4:       # GFF3 gives no meaning to the order of the rows of one feature:
                if mix.random() < 0.5:                  # descending (NCBI lists reverse-strand CDS rows that way) or any order
                    q.reverse()
                else:
                    mix.shuffle(q)
    if mix is not None and len(queues) > 1 and mix.random() < 0.4:
        while any(queues):
            q = mix.choice([q for q in queues if q])
            out.append(q.pop(0))
    else:
        for q in queues:
            out += q
    if mix is not None and mix.random() < 0.4:
        rows, keep = out[2 if seqregion else 1:], out[:2 if seqregion else 1]
        extra = []
        for _ in range(mix.randint(1, 3)):
            a = mix.randint(1, max(1, len(genome) - 3))
            typ = mix.choice(["gene", "five_prime_UTR", "three_prime_UTR", "region", "stem_loop", "mature_protein_region"])
            extra.append("\t".join([seqid, "test", typ, str(a), str(min(len(genome), a + mix.randint(0, 5))), ".", mix.choice("+-."), ".",
                                    "ID=x%d;Name=zz%d" % (mix.randint(0, 99), mix.randint(0, 9))]))
        for e in extra:
            rows.insert(mix.randint(0, len(rows)), e)
        out = keep + rows
    if with_fasta:
        out.append("##FASTA")
        out.append(">" + seqid)
        out.append(genome)
    return ("\n".join(out) + "\n").encode()


# ---------------------------------------------------------------- alignments

def make_msa(rng, genome, nq, p_ins_site=0.04, with_insertions=True, lead=False):
    """Returns (ref_row, [query rows]) of equal width.  Insertion sites are gap columns in the reference row;
    each query has bases or gaps there."""
    n = len(genome)
    sites = {}
    if with_insertions:
        for p in range(0, n + 1):          # insertion after p reference bases
            if rng.random() < p_ins_site:
                sites[p] = rng.randint(1, 3)
        if lead:            # an insertion before the first reference base (reported at position 0)
            sites[0] = rng.randint(1, 3)
    queries = []
    for _ in range(nq):
        q = list(genome)
        i = 0
        while i < n:
            r = rng.random()
            if r < 0.06:
                q[i] = rng.choice("ACGT")
            elif r < 0.09:
                q[i] = rng.choice("RYSWKMBDHVN")
            elif r < 0.11:
                L = rng.randint(1, 4)
                for j in range(i, min(n, i + L)):
                    q[j] = "-"
                i += L - 1
            if i < n and rng.random() < 0.05:
                q[i] = q[i].lower()
            i += 1
        ins = {p: ("".join(rng.choice("ACGT") for _ in range(rng.randint(1, L))).ljust(L, "-") if rng.random() < 0.5 else "-" * L)
               for p, L in sites.items()}
        queries.append((q, ins))
    ref_row = []
    rows = [[] for _ in queries]
    for p in range(0, n + 1):
        if p in sites:
            ref_row.append("-" * sites[p])
            for k, (q, ins) in enumerate(queries):
                rows[k].append(ins[p])
        if p < n:
            ref_row.append(genome[p])
            for k, (q, ins) in enumerate(queries):
                rows[k].append(q[p])
    return "".join(ref_row), ["".join(r) for r in rows]


# ---------------------------------------------------------------- oracles (from the statements)

def ref_coords(ref_row, que_row):
    """Query symbol at each reference position (1-based list index p-1), from the pairwise relation."""
    return [q for r, q in zip(ref_row, que_row) if r != "-"]


def disjoint_positions(ref_row, que_row):
    refb = [r for r in ref_row if r != "-"]
    qb = ref_coords(ref_row, que_row)
    return {i + 1 for i, (r, q) in enumerate(zip(refb, qb)) if disjoint(r, q)}


def expected_indels(ref_row, que_row):
    """ins:P:L / del:P:L from the statement.  Double-gap columns are erased first.  An insertion is a
    maximal run of (reference gap, query base) columns, P = number of reference bases to its left.  A
    deletion is a maximal run, in the sequence of reference bases, of bases absent from the query
    (insertion columns are not reference bases and interrupt nothing), P = 1-based position of its first
    base; deletions that include the first or last reference base are not reported."""
    cols = [(r, q) for r, q in zip(ref_row, que_row) if not (r == "-" and q == "-")]
    out = []
    refb = 0
    i = 0
    while i < len(cols):
        if cols[i][0] == "-":
            j = i
            while j < len(cols) and cols[j][0] == "-":
                j += 1
            out.append(("ins", refb, j - i))
            i = j
        else:
            refb += 1
            i += 1
    qref = [q for r, q in cols if r != "-"]
    n = len(qref)
    i = 0
    while i < n:
        if qref[i] == "-":
            j = i
            while j < n and qref[j] == "-":
                j += 1
            if i != 0 and j != n:
                out.append(("del", i + 1, j - i))
            i = j
        else:
            i += 1
    return out


def parse_rows(out_bytes):
    """query,mutations rows -> {name: [mutation strings]} preserving order; list of (name, muts)."""
    lines = out_bytes.decode().split("\n")
    rows = []
    for l in lines[1:]:
        if not l:
            continue
        name, _, muts = l.partition(",")
        rows.append((name, [m for m in muts.split("|") if m]))
    return lines[0], rows


def mentioned_positions(muts):
    import re
    ps = set()
    for m in muts:
        if m.startswith("nuc:"):
            ps.add(int(re.match(r"nuc:[^0-9-]+(-?\d+)", m).group(1)))
        elif m.startswith("aa:") and "(" in m:
            for s in m[m.index("(") + 1:-1].split(";"):
                mm = re.match(r"nuc:[^0-9-]+(-?\d+)", s)
                if mm:                      # an aa record with an empty (nuc:...) list mentions nothing
                    ps.add(int(mm.group(1)))
    return ps
