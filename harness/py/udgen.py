"""Generators and statement-level oracle for `updown topranking` (C08, C09)."""
import struct
import gen

ACGT = "ACGT"


def f32(x):
    return struct.unpack("f", struct.pack("f", x))[0]


def make_inputs(rng, w=None, nq=None, nt=None):
    """Reference (A/C/G/T), queries and targets with shared SNPs, multiple hits and ambiguity tracts."""
    w = w or rng.choice([8, 14, 24, 40])
    ref = gen.rand_seq(rng, w)
    # a small tree: ancestor -> child -> grandchild, plus siblings, so all four bins occur
    def mut(s, k):
        s = list(s)
        for _ in range(k):
            i = rng.randrange(w)
            s[i] = rng.choice([c for c in ACGT if c != s[i]])
        return "".join(s)
    anc = mut(ref, rng.randint(0, 2))
    mid = mut(anc, rng.randint(0, 2))
    pool = [ref, anc, mid, mut(mid, 1), mut(mid, 2), mut(anc, 1), mut(anc, 2), mut(ref, 1), mut(ref, 3)]
    def amb(s):
        s = list(s)
        r = rng.random()
        if r < 0.35:
            i = rng.randrange(w)
            L = rng.randint(1, 3)
            for j in range(i, min(w, i + L)):
                s[j] = rng.choice("N-RY?")
        if rng.random() < 0.1:
            j = rng.randrange(w)
            s[j] = s[j].lower()
        return "".join(s)
    nq = nq or rng.randint(1, 3)
    nt = nt or rng.choice([rng.randint(1, 9), rng.randint(8, 16)])
    queries = [("q%d" % i, amb(rng.choice(pool[1:6]))) for i in range(nq)]
    targets = [("t%d" % i, amb(rng.choice(pool))) for i in range(nt)]
    return ref, queries, targets


def crowded_case(rng):
    """Options first (total capacity S), then supplies: at least one bin at/over S, at least one with 2..S-1."""
    o = crowded_opts(rng, 1)
    S = o["sizetotal"] or sum(o[k] for k in ("sizeup", "sizedown", "sizeside", "sizesame"))
    bins = ["up", "down", "side", "same"]
    rng.shuffle(bins)
    sup = {b: rng.choice([0, 1, 2, 3]) for b in bins}
    sup[bins[0]] = S + rng.randint(0, 3)
    sup[bins[1]] = rng.randint(2, max(2, S - 1))
    if rng.random() < 0.5:
        sup[bins[2]] = rng.randint(2, max(2, S - 1))
    if rng.random() < 0.25:
        # a long bin (well past 12 entries, many ties on distance and ambiguity count) reported in full or nearly so
        sup[bins[0]] = rng.randint(14, 26)
        for k in ("sizetotal", "sizeup", "sizedown", "sizeside", "sizesame"):
            o[k] = 0
        if rng.random() < 0.5:
            o["sizetotal"] = rng.randint(20, 40)
        else:
            for k in ("sizeup", "sizedown", "sizeside", "sizesame"):
                o[k] = rng.choice([-1, 12, 20])
    if rng.random() < 0.2:
        # --dist-push over a long bin: more than a dozen reported targets at two or three distances, with ties
        for k in ("sizetotal", "sizeup", "sizedown", "sizeside", "sizesame"):
            o[k] = 0
        o["distpush"] = rng.randint(2, 3)
        b = rng.choice(["up", "down", "side"])
        sup[b] = rng.randint(14, 26)
    ref, qs, ts = make_inputs_crowded(rng, sup)
    return ref, qs, ts, o


def make_inputs_crowded(rng, supplies=None):
    """Targets built bin by bin around one query, with chosen supplies per bin (some bins over the requested capacity,
    others under it and in unsorted file order), so the cross-bin clauses of the size options are exercised."""
    w = rng.choice([16, 24, 40])
    ref = gen.rand_seq(rng, w)
    cols = list(range(w))
    rng.shuffle(cols)
    k = rng.randint(2, 4)
    qcols, free = cols[:k], cols[k:]
    def put(s, cs):
        s = list(s)
        for c in cs:
            s[c] = rng.choice([x for x in ACGT if x != ref[c]])
        return "".join(s)
    q = put(ref, qcols)
    def with_q(sub, extra):
        s = list(ref)
        for c in sub:
            s[c] = q[c]
        s = "".join(s)
        return put(s, rng.sample(free, extra))
    mk = {"up": lambda: with_q(rng.sample(qcols, rng.randint(0, k - 1)), 0),
          "down": lambda: with_q(qcols, rng.randint(1, min(5, len(free)))),
          "side": lambda: with_q(rng.sample(qcols, rng.randint(0, k - 1)), rng.randint(1, min(5, len(free)))),
          "same": lambda: with_q(qcols, 0)}
    targets = []
    for b in ("up", "down", "side", "same"):
        for _ in range(supplies[b] if supplies else rng.choice([0, 1, 2, 3, 5, 8])):
            t = mk[b]()
            if rng.random() < 0.5:
                # 1-3 ambiguous sites at columns where the target carries no SNP: the same distance, another ambiguity count
                # (the second key of the ranking, also inside a bin that is already full)
                t = list(t)
                plain = [j for j in free if t[j] == ref[j]] or free
                for j in rng.sample(plain, min(len(plain), rng.randint(1, 3))):
                    t[j] = rng.choice("NN-RY")
                t = "".join(t)
            targets.append(t)
    if not targets:
        targets = [mk["down"]()]
    rng.shuffle(targets)
    targets = [("t%d" % i, t) for i, t in enumerate(targets)]
    return ref, [("q0", q)], targets


def crowded_opts(rng, nt):
    o = random_opts(rng, nt)
    for k in ("sizetotal", "sizeup", "sizedown", "sizeside", "sizesame", "distall", "distup", "distdown", "distside", "distpush"):
        o[k] = 0
    o["threshpair"], o["threshtarg"] = 1.0, 10000
    if rng.random() < 0.4:
        o["sizetotal"] = rng.randint(2, 8)
    else:
        for k in ("sizeup", "sizedown", "sizeside", "sizesame"):
            o[k] = rng.choice([0, 1, 1, 2, 3])
        if all(o[k] == 0 for k in ("sizeup", "sizedown", "sizeside", "sizesame")):
            o["sizeside"] = 1
    return o


def random_opts(rng, nt):
    o = {"table": rng.random() < 0.6, "ignore": [], "sizetotal": 0, "sizeup": 0, "sizedown": 0, "sizeside": 0, "sizesame": 0,
         "distall": 0, "distup": 0, "distdown": 0, "distside": 0, "threshpair": rng.choice([0.1, 0.1, 0.25, 0.5, 1.0, 0.0]),
         "threshtarg": rng.choice([10000, 10000, 2, 0]), "nofill": rng.random() < 0.4, "distpush": 0}
    mode = rng.choice(["total", "sizes", "dist", "push", "push", "sizes+dist", "all"])
    if mode == "total":
        o["sizetotal"] = rng.randint(1, 8)
    elif mode in ("sizes", "sizes+dist"):
        for k in ("sizeup", "sizedown", "sizeside", "sizesame"):
            o[k] = rng.choice([0, 1, 2, 3, -1]) if rng.random() < 0.8 else 0
        if all(o[k] == 0 for k in ("sizeup", "sizedown", "sizeside", "sizesame")):
            o["sizeup"] = 1
    if mode in ("dist", "sizes+dist"):
        if rng.random() < 0.5:
            o["distall"] = rng.randint(1, 3)
        else:
            for k in ("distup", "distdown", "distside"):
                o[k] = rng.randint(0, 3)
            if o["distup"] == o["distdown"] == o["distside"] == 0:
                o["distup"] = 1
    if mode == "push":
        o["distpush"] = rng.randint(1, 3)
    if mode == "all":
        o["distall"] = 100
    if rng.random() < 0.3:
        # an --ignore file is read in file order: 1-4 IDs in arbitrary (mostly not ascending) order, sometimes with an
        # ID that is no target at all
        ids = ["t%d" % i for i in range(max(1, nt))]
        rng.shuffle(ids)
        o["ignore"] = ids[:rng.randint(1, min(4, len(ids)))]
        if rng.random() < 0.2:
            o["ignore"].insert(rng.randrange(len(o["ignore"]) + 1), "zz_absent")
    return o


# ---------------------------------------------------------------- statement-level oracle

def is_acgt(c):
    return c.upper() in ACGT


def pair_stats(ref, q, t):
    """(bin, distance, passes pair threshold inputs) from the statement."""
    ref, q, t = ref.upper(), q.upper(), t.upper()
    qonly = tonly = dist = tab3 = shared = 0
    for r, a, b in zip(ref, q, t):
        qa, tb = a in ACGT, b in ACGT
        if qa and tb and a != b:
            dist += 1
        qsnp = qa and a != r
        tsnp = tb and b != r
        if qsnp:
            if not tb:
                tab3 += 1
            elif b == a:
                shared += 1
            else:
                qonly += 1
        if tsnp:
            if not qa:
                tab3 += 1
            elif a != b:
                tonly += 1
    d = ("same" if not qonly and not tonly else "up" if qonly and not tonly else "down" if tonly and not qonly else "side")
    total = qonly + shared + tonly + tab3
    return d, dist, tab3, total


def ambcount(s):
    return sum(1 for c in s if not is_acgt(c))


def candidates(ref, q, targets, opts):
    """per bin: candidates in the order (distance, fewer ambiguities, file order), thresholds and --ignore applied."""
    bins = {"same": [], "up": [], "down": [], "side": []}
    thr = f32(opts["threshpair"])
    for name, t in targets:
        if ambcount(t) > opts["threshtarg"] or name in opts["ignore"]:
            continue
        d, dist, tab3, total = pair_stats(ref, q, t)
        if total > 0 and f32(f32(tab3) / f32(total)) > thr:
            continue
        bins[d].append((dist, ambcount(t), name))
    for k in bins:
        bins[k] = sorted(bins[k], key=lambda x: (x[0], x[1]))     # stable: file order breaks ties
    return bins


MAXI = 2147483647


def check_rows(ref, queries, targets, opts, out_text):
    """Returns problems found in the table-form output (list of strings)."""
    probs = []
    lines = out_text.split("\n")
    rows = [l.split(",") for l in lines[1:] if l]
    byq = {}
    order = []
    for qn, d, dist, tn in rows:
        if qn not in byq:
            byq[qn] = {"same": [], "up": [], "down": [], "side": []}
            order.append(qn)
        byq[qn][d].append((int(dist), tn))
    if order != [n for n, _ in queries if n in byq]:
        probs.append("rows not in query-file order: %r" % order)
    st = opts
    sizes = None
    if st["sizetotal"] > 0:
        qd = st["sizetotal"] // 4
        sizes = {"same": st["sizetotal"] - 3 * qd, "up": qd, "down": qd, "side": qd}
    elif any(st[k] != 0 for k in ("sizeup", "sizedown", "sizeside", "sizesame")):
        sizes = {"same": st["sizesame"], "up": st["sizeup"], "down": st["sizedown"], "side": st["sizeside"]}
        sizes = {k: (MAXI if v == -1 else v) for k, v in sizes.items()}
    if st["distall"] > 0:
        dl = {"same": 0, "up": st["distall"], "down": st["distall"], "side": st["distall"]}
    elif any(st[k] != 0 for k in ("distup", "distdown", "distside")):
        dl = {"same": 0, "up": st["distup"], "down": st["distdown"], "side": st["distside"]}
    else:
        dl = {k: MAXI for k in ("same", "up", "down", "side")}
    for qn, qs in queries:
        got = byq.get(qn, {"same": [], "up": [], "down": [], "side": []})
        cand = candidates(ref, qs, targets, opts)
        if st["distpush"] > 0:
            for b in ("up", "down", "side"):
                ds = sorted({c[0] for c in cand[b]})[:st["distpush"]]
                exp = [(c[0], c[2]) for c in cand[b] if c[0] in ds]
                if got[b] != exp:
                    probs.append("%s %s: got %r, expected the targets at the %d smallest occurring distances %r" % (qn, b, got[b], st["distpush"], exp))
            # `same` holds every identical target (file order)
            exp_same = sorted([c[2] for c in cand["same"]])
            if sorted(t for _, t in got["same"]) != exp_same:
                probs.append("%s same: got %r expected every identical target %r" % (qn, got["same"], exp_same))
            continue
        avail = {}
        for b in ("same", "up", "down", "side"):
            c = [(x[0], x[2]) for x in cand[b] if x[0] <= dl[b]]
            avail[b] = len(c)
            if got[b] != c[:len(got[b])]:
                probs.append("%s %s: got %r, which is not a prefix of the candidates ordered by (distance, ambiguities, file order) %r" % (qn, b, got[b], c))
        if sizes is None:
            for b in avail:
                if len(got[b]) != avail[b]:
                    probs.append("%s %s: %d reported, %d candidates and no size limit" % (qn, b, len(got[b]), avail[b]))
            continue
        total = MAXI if MAXI in sizes.values() else sum(sizes.values())
        n = {b: len(got[b]) for b in got}
        base = {b: min(sizes[b], avail[b]) for b in sizes}
        if sum(n.values()) > total:
            probs.append("%s: total %d exceeds the limit %d" % (qn, sum(n.values()), total))
        for b in n:
            if not (base[b] <= n[b] <= avail[b]):
                probs.append("%s %s: size %d outside [min(requested, available) = %d, available = %d]" % (qn, b, n[b], base[b], avail[b]))
        if st["nofill"]:
            if n != base:
                probs.append("%s: --no-fill sizes %r, expected min(requested, available) %r" % (qn, n, base))
        else:
            if all(avail[b] >= sizes[b] for b in sizes):
                if n != base:
                    probs.append("%s: nothing to fill, sizes %r expected %r" % (qn, n, base))
            else:
                if sum(n.values()) != min(total, sum(avail.values())) and sum(n.values()) != sum(base.values()) + sum(max(0, avail[b] - sizes[b]) for b in sizes):
                    if sum(n.values()) != min(total, sum(base.values()) + sum(max(0, avail[b] - sizes[b]) for b in sizes)):
                        probs.append("%s: filled total %d, expected min(limit %d, supply %d)" % (qn, sum(n.values()), total, sum(avail.values())))
                extra = {b: n[b] - base[b] for b in n}
                for i in extra:
                    for j in extra:
                        if extra[j] > extra[i] + 1 and n[i] < avail[i] and avail[i] > sizes[i]:
                            probs.append("%s: uneven fill %r (bin %s could still grow)" % (qn, extra, i))
    return probs
