"""One GFF3 feature row through gff.ReadGFF against the byte-level Coq model GffLineModel.v (feature_from_line): rows written from
well-formed fields (must come back field by field) and a malformed stream (missing / extra columns, bad strand and phase, odd
seqids, attribute text with stray '=' and ';').  Numbers stay small; lines never start with '#'."""
import common as cm


def word(rng, alpha, lo=1, hi=6):
    return "".join(rng.choice(alpha) for _ in range(rng.randint(lo, hi)))


def good_row(rng):
    seqid = rng.choice(["ref", "NC_045512.2", "MN908947.3", "chr1", word(rng, "abcXYZ019._:|", 1, 6)])
    typ = rng.choice(["CDS", "CDS", "gene", "mature_protein_region_of_CDS", "region", "five_prime_UTR"])
    a = rng.randint(0, 300)
    b = a + rng.randint(0, 40)
    strand = rng.choice("+-.?")
    phase = rng.choice(["0", "1", "2"]) if typ == "CDS" else rng.choice(["0", "1", "2", "."])
    attrs, keys = [], []
    for _ in range(rng.randint(1, 4)):
        k = rng.choice(["ID", "Name", "Parent", "Note", "Dbxref", "gbkey", "product"])
        vals = [word(rng, "abc123 :/%._-", 0, 5) for _ in range(rng.randint(1, 3))]
        attrs.append((k, vals))
    fields = [seqid, word(rng, "abc. ", 0, 4), typ, str(a), str(b), rng.choice([".", "0.5", ""]), strand, phase,
              ";".join(k + "=" + ",".join(v) for k, v in attrs)]
    last = {}
    for k, v in attrs:
        last[k] = v
    exp = "".join("%d:%s" % (len(x), x) for x in [seqid, fields[1], typ, str(a), str(b), fields[5], strand, "0" if phase == "." else phase])
    exp += "".join("|%d:%s" % (len(k), k) + "".join(",%d:%s" % (len(v), v) for v in last[k]) for k in sorted(last))
    return "\t".join(fields), exp


def bad_row(rng):
    line, _ = good_row(rng)
    f = line.split("\t")
    k = rng.randint(0, 9)
    if k == 0:
        f = f[:rng.randint(1, 8)]
    elif k == 1:
        f.append("extra")
    elif k == 2:
        f[3] = rng.choice(["x", "", "+5", "-2", "1.5"])
    elif k == 3:
        f[6] = rng.choice(["x", "", "++"])
    elif k == 4:
        f[7] = rng.choice(["3", "-1", "", "+1", "01", "."])
    elif k == 5:
        f[8] = rng.choice([f[8] + ";", f[8].replace("=", "==", 1), ".", "", "ID"])
    elif k == 6:
        f[0] = word(rng, "ab-%/ >\\[]^", 1, 5)
    elif k == 7:
        f[2] = rng.choice(["cds", "CDS ", ""])
    else:
        i = rng.randrange(len(line) + 1)
        line2 = line[:i] + rng.choice("\t;=,. x") + line[i:]
        return line2
    return "\t".join(f)


def run(ctx, n):
    rng = ctx.rng
    items = []
    for _ in range(n):
        if rng.random() < 0.5:
            items.append(good_row(rng))
        else:
            l = bad_row(rng)
            if l and not l.startswith("#") and "\n" not in l:
                items.append((l, None))
    cases = [{"id": i, "op": "gffline", "line": cm.b64(l.encode())} for i, (l, _) in enumerate(items)]
    obs = cm.go_run(cases, ctx.log)
    bad, classes = [], {}
    for i, (l, exp) in enumerate(items):
        classes[obs[i]["status"]] = classes.get(obs[i]["status"], 0) + 1
        if exp is None:
            continue
        got = cm.unb64(obs[i]["out"]).decode("latin1") if obs[i]["status"] == "ok" else "<%s: %s>" % (obs[i]["status"], obs[i].get("err", "")[:80])
        if got != exp:
            bad.append({"row": l, "read_by_gff.ReadGFF": got[:300], "fields_written": exp[:300]})
    verdicts = cm.coq_verdicts(ctx.pid, ["Base", "FastaModel", "Harness", "GffLineModel", "Check_Gff"], "check_gff",
                               [(i, "(%s, %s)" % (cm.cbytes(l.encode()), cm.cgores(obs[i]))) for i, (l, _) in enumerate(items)], ctx.log, tag="gff")
    mism = [{"row": items[i][0], "gff.ReadGFF": obs[i]["status"] + ":" + cm.unb64(obs[i].get("out", "")).decode("latin1")[:150]} for i, v in verdicts.items() if v != 0]
    for b in bad[:3]:
        cm.violation(ctx, "failing-input", dict(b, what="a well-formed GFF3 feature row is not read back as the fields it was written from"))
    if mism and not bad:
        for b in mism[:3]:
            cm.violation(ctx, "model-mismatch", dict(b, what="GffLineModel.feature_from_line and gff.ReadGFF disagree on this row; no well-formed row was read wrongly"), no_failing_input=True)
    return {"gff_rows": len(items), "gff_row_outcomes": classes, "gff_model_mismatches": len(mism)}
