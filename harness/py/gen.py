"""Input generators shared by the property modules.  Every random choice comes from the rng
passed in (one PRNG per run, derived from VERIF_SEED)."""

IUPAC = "ACGTRYSWKMBDHVN"
SYMS17 = IUPAC + "-?"
SYMS32 = IUPAC + IUPAC.lower() + "-?"


def rand_seq(rng, n, alphabet="ACGT", weights=None):
    return "".join(rng.choices(alphabet, weights=weights, k=n))


def mutate(rng, ref, p_sub=0.1, p_amb=0.05, p_gap=0.03, p_lower=0.1):
    out = []
    for c in ref:
        r = rng.random()
        if r < p_sub:
            c = rng.choice("ACGT")
        elif r < p_sub + p_amb:
            c = rng.choice("RYSWKMBDHVN?")
        elif r < p_sub + p_amb + p_gap:
            c = "-"
        if rng.random() < p_lower:
            c = c.lower()
        out.append(c)
    return "".join(out)


def layout(rng, records, style=None):
    """Render (header, seq) records as FASTA bytes under a random layout: line width, CRLF,
    blank lines, final newline.  style=None picks one at random; 'plain' is one line per seq."""
    if style is None:
        style = rng.choice(["plain", "wrap", "crlf", "blank", "mixed", "nofinal"])
    out = bytearray()
    for hi, (h, s) in enumerate(records):
        eol = b"\r\n" if style in ("crlf",) or (style == "mixed" and rng.random() < 0.5) else b"\n"
        if style in ("blank", "mixed") and rng.random() < 0.3:
            out += eol
        out += b">" + h.encode() + eol
        if style in ("wrap", "mixed", "blank", "crlf") and len(s) > 1:
            w = rng.randint(1, max(1, len(s)))
            i = 0
            while i < len(s):
                if style in ("blank", "mixed") and rng.random() < 0.2:
                    out += eol
                out += s[i:i + w].encode() + eol
                i += w
                if style == "mixed":
                    w = rng.randint(1, max(1, len(s)))
        else:
            out += s.encode() + eol
    if style == "nofinal" and out.endswith(b"\n"):
        out = out[:-1]
    return bytes(out)


def rand_name(rng, i):
    base = rng.choice(["q", "seq", "hCoV-19/x", "s|1", "A.1", "q", "seq", "a,b", 'q"', '"x"y"', "x,", ";=%#:"]) + str(i)      # IDs are free text
    if rng.random() < 0.3:
        # any run of Unicode-free ASCII white space ends the ID (strings.Fields): space, tab, VT, FF, and mixtures
        base += rng.choice([" ", " ", "\t", "  ", "\t ", " \t", "\x0b", "\x0c"]) + rng.choice(["desc", "some text here", "x=1\ty", "a\tb c"])
    if rng.random() < 0.05:
        base = rng.choice([" ", "\t"]) + base
    return base


def corrupt(rng, data):
    """One structured corruption of a FASTA byte stream; returns (kind, bytes)."""
    data = bytearray(data)
    kind = rng.choice(["badsym", "dropbyte", "dupbyte", "truncate", "nohdr", "emptyhdr", "empty", "randbytes", "longer", "emptyseq", "emptyseq"])
    if kind == "badsym" and data:
        pos = rng.randrange(len(data))
        data[pos] = rng.choice(b"EFIJLOPQUXZ!*1. ")
    elif kind == "dropbyte" and data:
        del data[rng.randrange(len(data))]
    elif kind == "dupbyte" and data:
        p = rng.randrange(len(data))
        data.insert(p, data[p])
    elif kind == "truncate" and data:
        del data[rng.randrange(len(data)):]
    elif kind == "nohdr":
        if data[:1] == b">":
            del data[0]
    elif kind == "emptyhdr":
        # blank the text of one header (first, or any later one), optionally leaving white space only
        starts = [m for m in range(len(data)) if data[m:m + 1] == b">" and (m == 0 or data[m - 1:m] == b"\n")]
        i = rng.choice(starts) if starts else -1
        if i >= 0:
            j = data.find(b"\n", i)
            if j < 0:
                j = len(data)
            del data[i + 1:j]
            if rng.random() < 0.3:
                data[i + 1:i + 1] = rng.choice([b" ", b"\t", b"  "])
    elif kind == "empty":
        data = bytearray()
    elif kind == "randbytes":
        data = bytearray(rng.choices(b">ACGTN-\n\r xq", k=rng.randint(0, 30)))
    elif kind == "longer":
        data += b"A"
    elif kind == "emptyseq":
        # remove the sequence lines of one record (first, middle or last): a header followed directly by the next header
        lines = bytes(data).split(b"\n")
        hdrs = [i for i, l in enumerate(lines) if l.startswith(b">")]
        if hdrs:
            h = rng.choice([hdrs[0], hdrs[len(hdrs) // 2], hdrs[-1]])
            j = h + 1
            while j < len(lines) and not lines[j].startswith(b">"):
                j += 1
            keep_blank = [b""] if rng.random() < 0.3 else []
            lines[h + 1:j] = keep_blank if j < len(lines) else keep_blank + [b""]
            data = bytearray(b"\n".join(lines))
    return kind, bytes(data)
