"""The FEATURES block of a GenBank file through genbank.ReadGenBank against the byte-level Coq model GenbankModel.v
(parse_features): blocks of features with one-line and multi-line qualifiers, feature keys that do not begin with a letter,
value text with '=' and doubled quotes, qualifiers without a value, and malformed blocks (a qualifier before any feature, a
white-space-only line, a stray text line, a feature line without a location) - several of which make the parser panic, which
the model says too.  Every line begins with white space (a line beginning with a capital letter starts another section)."""
import common as cm

KEYS = ["CDS", "gene", "5'UTR", "3'UTR", "mat_peptide", "-10_signal", "source", "misc_feature"]


def block(rng):
    lines = []
    for _ in range(rng.randint(0, 4)):
        k = rng.choice(KEYS)
        loc = rng.choice(["1..9", "join(1..5,7..9)", "complement(3..8)", "<1..>9", "join(1..5,", "1..9 extra"])
        r = rng.random()
        if r < 0.85:
            lines.append("     %-15s %s" % (k, loc))
        elif r < 0.93:
            lines.append("     " + k)
        for _ in range(rng.randint(0, 4)):
            q = rng.choice(["gene", "codon_start", "translation", "note", "product", "pseudo", "db_xref"])
            v = rng.choice(['"abc"', '1', '"MKV', '"a=b"', '"two words"', '', '"x""y"', '"'])
            if q == "pseudo" and rng.random() < 0.7:
                lines.append("                     /" + q)
            else:
                lines.append("                     /%s=%s" % (q, v))
            if v == '"MKV':
                for _ in range(rng.randint(0, 2)):
                    lines.append("                     " + rng.choice(["LLL", "A B", "Q1"]))
                lines.append("                     " + rng.choice(['END"', 'E"', '"']))
    if rng.random() < 0.06:
        lines.insert(rng.randint(0, len(lines)), "   ")
    if rng.random() < 0.06:
        lines.insert(rng.randint(0, len(lines)), "                     stray text")
    if rng.random() < 0.06 and lines:
        lines.insert(0, "                     /gene=\"early\"")
    return lines


def good_block(rng):
    """features with one-line qualifiers; returns the lines and what must be read back"""
    lines, exp = [], ""
    for _ in range(rng.randint(1, 4)):
        k = rng.choice(KEYS)
        loc = rng.choice(["1..9", "join(1..5,7..9)", "complement(join(3..8,12..20))"])
        lines.append("     %-15s %s" % (k, loc))
        quals = {}
        for _ in range(rng.randint(1, 4)):
            q = rng.choice(["gene", "codon_start", "translation", "note", "product", "db_xref"])
            quoted = rng.random() < 0.7
            v = rng.choice(["abc", "two words", "MKV*", "x:1"]) if quoted else rng.choice(["1", "2", "experimental"])
            lines.append("                     /%s=%s" % (q, '"%s"' % v if quoted else v))
            quals[q] = v
        exp += "#%d:%s%d:%s" % (len(k), k, len(loc), loc) + "".join("|%d:%s%d:%s" % (len(q), q, len(quals[q]), quals[q]) for q in sorted(quals))
    return lines, exp


def run(ctx, n):
    rng = ctx.rng
    items = []
    for _ in range(n):
        items.append(good_block(rng) if rng.random() < 0.4 else (block(rng), None))
    cases = [{"id": i, "op": "gbfeatures", "block": cm.b64(("".join(l + "\n" for l in b)).encode())} for i, (b, _) in enumerate(items)]
    obs = cm.go_run(cases, ctx.log)
    bad, classes = [], {}
    for i, (b, exp) in enumerate(items):
        st = "panic" if obs[i]["status"] == "crash" else obs[i]["status"]
        classes[st] = classes.get(st, 0) + 1
        if exp is None:
            continue
        got = cm.unb64(obs[i]["out"]).decode("latin1") if obs[i]["status"] == "ok" else "<%s>" % obs[i]["status"]
        if got != exp:
            bad.append({"block": "\n".join(b), "read_by_genbank.ReadGenBank": got[:400], "features_written": exp[:400]})
    clines = lambda b: "[" + ";".join(cm.cbytes(l.encode()) for l in b) + "]"
    verdicts = cm.coq_verdicts(ctx.pid, ["Base", "FastaModel", "Harness", "GenbankModel", "Check_Genbank"], "check_genbank",
                               [(i, "(%s, %s)" % (clines(b), cm.cgores(obs[i]))) for i, (b, _) in enumerate(items)], ctx.log, tag="gbk")
    mism = [{"block": "\n".join(items[i][0]), "genbank.ReadGenBank": obs[i]["status"] + ":" + cm.unb64(obs[i].get("out", "")).decode("latin1")[:200]} for i, v in verdicts.items() if v != 0]
    for b in bad[:3]:
        cm.violation(ctx, "failing-input", dict(b, what="a well-formed FEATURES block is not read back as the features it was written from"))
    if mism and not bad:
        for b in mism[:3]:
            cm.violation(ctx, "model-mismatch", dict(b, what="GenbankModel.parse_features and genbank.ReadGenBank disagree on this block; no well-formed block was read wrongly"), no_failing_input=True)
    # ORIGIN blocks: numbering, blanks, both cases, symbols that are not letters
    oitems = []
    for _ in range(max(20, n // 5)):
        g = "".join(rng.choice("acgtnACGTryk") for _ in range(rng.randint(0, 150)))
        lines, want = [], ""
        for i in range(0, len(g), 60):
            chunk = g[i:i + 60]
            sep = rng.choice([" ", "  ", ""])
            lines.append("%9d %s" % (i + 1, sep.join(chunk[j:j + 10] for j in range(0, len(chunk), 10))) + rng.choice(["", " ", " *", " 12-"]))
            want += chunk
        oitems.append((lines, want))
    ocases = [{"id": i, "op": "gborigin", "block": cm.b64(("".join(l + "\n" for l in b)).encode())} for i, (b, _) in enumerate(oitems)]
    oobs = cm.go_run(ocases, ctx.log)
    for i, (b, want) in enumerate(oitems):
        got = cm.unb64(oobs[i]["out"]).decode("latin1") if oobs[i]["status"] == "ok" else "<%s>" % oobs[i]["status"]
        if got != want:
            cm.violation(ctx, "failing-input", {"what": "the ORIGIN block is not read back as the sequence it was written from", "block": "\n".join(b), "read": got[:300], "written": want[:300]})
            break
    overd = cm.coq_verdicts(ctx.pid, ["Base", "FastaModel", "Harness", "GenbankModel", "Check_Genbank"], "check_origin",
                            [(i, "(%s, %s)" % (clines(b), cm.cgores(oobs[i]))) for i, (b, _) in enumerate(oitems)], ctx.log, tag="gbo")
    if any(v != 0 for v in overd.values()) and not ctx.violations:
        cm.violation(ctx, "model-mismatch", {"what": "GenbankModel.parse_origin and genbank.ReadGenBank disagree on an ORIGIN block"}, no_failing_input=True)
    return {"genbank_origin_blocks": len(oitems), "genbank_blocks": len(items), "genbank_block_outcomes": classes, "genbank_model_mismatches": len(mism)}
