"""Shared machinery of the gofasta verification checks (see /verif/DESIGN.md section 1.1)."""
import base64
import fcntl
import hashlib
import json
import os
import random
import re
import shutil
import subprocess
import sys
import time

VERIF = os.path.dirname(os.path.dirname(os.path.dirname(os.path.abspath(__file__))))
REPO = os.environ.get("VERIF_REPO", "/repo")
COQ = os.path.join(VERIF, "coq")
WORK = os.path.join(VERIF, "work")
GOH = os.path.join(VERIF, "harness", "go")
BIN = os.path.join(WORK, "bin")
REPLAYS = os.path.join(VERIF, "replays")
EVID = os.path.join(VERIF, "evidence")

GOENV = dict(os.environ, GOFLAGS="-mod=mod", GOPROXY="off", GOSUMDB="off", GOTOOLCHAIN="local",
             CGO_ENABLED="0")

FORBIDDEN = re.compile(r"\b(Admitted|admit|Axiom|Axioms|Parameter|Parameters|Conjecture|Conjectures)\b|"
                       r"Unset\s+Guard|bypass_check|type-in-type|impredicative-set|Admit\s+Obligations|"
                       r"Unset\s+Positivity|Unset\s+Universe")


def sh(cmd, cwd=None, env=None, timeout=None, input=None):
    p = subprocess.run(cmd, cwd=cwd, env=env, timeout=timeout, input=input,
                       stdout=subprocess.PIPE, stderr=subprocess.STDOUT, shell=isinstance(cmd, str))
    return p.returncode, p.stdout.decode("utf-8", "replace")


class Lock:
    def __init__(self, name):
        os.makedirs(WORK, exist_ok=True)
        self.path = os.path.join(WORK, "." + name + ".lock")

    def __enter__(self):
        self.f = open(self.path, "w")
        fcntl.flock(self.f, fcntl.LOCK_EX)
        return self

    def __exit__(self, *a):
        fcntl.flock(self.f, fcntl.LOCK_UN)
        self.f.close()


def write_if_changed(path, content):
    try:
        if open(path).read() == content:
            return False
    except OSError:
        pass
    tmp = path + ".tmp%d" % os.getpid()
    with open(tmp, "w") as f:
        f.write(content)
    os.replace(tmp, path)
    return True


# --------------------------------------------------------------------------- Go side

def build_harness(log):
    """Build the runner, the table dumper and the site scanner against /repo's working tree."""
    with Lock("go"):
        os.makedirs(BIN, exist_ok=True)
        shutil.copyfile(os.path.join(REPO, "go.sum"), os.path.join(GOH, "go.sum"))
        res = {}
        for name in ("dump", "run", "sites"):
            if not os.path.isdir(os.path.join(GOH, "cmd", name)):
                continue
            # build to a private name and rename: a check running in parallel may be executing the old binary
            tmpout = os.path.join(BIN, "%s.tmp%d" % (name, os.getpid()))
            rc, out = sh(["go", "build", "-tags", "verif", "-o", tmpout, "./cmd/" + name],
                         cwd=GOH, env=GOENV, timeout=900)
            if rc == 0:
                os.replace(tmpout, os.path.join(BIN, name))
            res[name] = (rc, out)
            if rc != 0:
                log("go build %s failed:\n%s" % (name, out))
        return res


def build_binary(log, race=False):
    """Build the gofasta binary itself (with the verif tag) from /repo's working tree."""
    with Lock("go"):
        os.makedirs(BIN, exist_ok=True)
        out_path = os.path.join(BIN, "gofasta-race" if race else "gofasta")
        cmd = ["go", "build", "-tags", "verif"]
        env = dict(GOENV)
        if race:
            cmd.append("-race")
            env["CGO_ENABLED"] = "1"
        tmpout = out_path + ".tmp%d" % os.getpid()
        rc, out = sh(cmd + ["-o", tmpout, "."], cwd=REPO, env=env, timeout=1200)
        if rc != 0:
            log("go build gofasta failed:\n" + out)
            return None
        # each check runs its own copy, so that a parallel check rebuilding the binary cannot disturb it
        private = out_path + ".%d" % os.getpid()
        os.replace(tmpout, private)
        import atexit
        atexit.register(lambda p=private: os.path.exists(p) and os.remove(p))
        return private


def regen_tables(log):
    rc, out = sh([private_copy(os.path.join(BIN, "dump"))], timeout=60)
    if rc != 0:
        log("table dump failed:\n" + out)
        return False
    with Lock("coq"):
        changed = write_if_changed(os.path.join(COQ, "gen", "Tables.v"), out)
    if changed:
        log("gen/Tables.v changed (regenerated from the current tree)")
    return True


def regen_sites(log):
    rc, out = sh([private_copy(os.path.join(BIN, "sites")), REPO], timeout=120)
    if rc != 0:
        log("site scan failed:\n" + out)
        return False
    with Lock("coq"):
        changed = write_if_changed(os.path.join(COQ, "gen", "WriteSites.v"), out)
    if changed:
        log("gen/WriteSites.v changed (regenerated from the current tree)")
    return True


_private = {}


def private_copy(path):
    """A per-process hard link (or copy) of a built tool, immune to a parallel check replacing it."""
    if path in _private and os.path.exists(_private[path]):
        return _private[path]
    dst = path + ".%d" % os.getpid()
    with Lock("go"):
        try:
            if os.path.exists(dst):
                os.remove(dst)
            os.link(path, dst)
        except OSError:
            shutil.copyfile(path, dst)
            os.chmod(dst, 0o755)
    import atexit
    atexit.register(lambda p=dst: os.path.exists(p) and os.remove(p))
    _private[path] = dst
    return dst


def go_run(cases, log, timeout=600):
    """Run cases (list of dicts with 'id' and 'op') through the Go runner.  Returns {id: obs}.
    A case during which the process died is reported as status 'crash' and the runner restarted."""
    results = {}
    pending = list(cases)
    runner = private_copy(os.path.join(BIN, "run"))
    while pending:
        data = "".join(json.dumps(c) + "\n" for c in pending).encode()
        p = subprocess.run([runner], input=data, stdout=subprocess.PIPE, stderr=subprocess.PIPE,
                           timeout=timeout, env=dict(os.environ, GOFASTA_VERIF_SEED=os.environ.get("GOFASTA_VERIF_SEED", "")))
        got = 0
        for line in p.stdout.decode().splitlines():
            try:
                o = json.loads(line)
            except ValueError:
                continue
            results[o["id"]] = o
            got += 1
        done_ids = set(results)
        rest = [c for c in pending if c["id"] not in done_ids]
        if not rest:
            break
        if p.returncode == 0 and got == 0:
            raise RuntimeError("runner produced nothing: " + p.stderr.decode()[-2000:])
        # the first case without a result killed the process
        dead = rest[0]
        tail = p.stderr.decode("utf-8", "replace")[-1500:]
        results[dead["id"]] = {"id": dead["id"], "status": "crash", "out": "", "err": tail}
        pending = rest[1:]
    return results


def b64(b):
    return base64.b64encode(bytes(b)).decode()


def unb64(s):
    return base64.b64decode(s) if s else b""


# --------------------------------------------------------------------------- Coq side

def coq_make(targets, log, timeout=3000):
    """make the given .vo targets (full .vo build).  Returns (ok, output)."""
    with Lock("coq"):
        if not os.path.exists(os.path.join(COQ, "Makefile")):
            rc, out = sh("coq_makefile -f _CoqProject -o Makefile", cwd=COQ, timeout=120)
            if rc != 0:
                return False, out
        rc, out = sh(["timeout", str(timeout), "make", "-j16"] + targets, cwd=COQ, timeout=timeout + 60)
    if rc != 0:
        log("coq make %s failed:\n%s" % (" ".join(targets), out[-3000:]))
    return rc == 0, out


def coqc_file(path, timeout=1800):
    """Compile one .v file outside the Makefile (cases files, Properties re-check)."""
    cwd = os.path.dirname(path)
    rc, out = sh(["timeout", str(timeout), "coqc", "-q", "-Q", os.path.join(COQ, "theories"), "GF",
                  "-Q", os.path.join(COQ, "gen"), "GFgen", "-w", "-all", os.path.basename(path)],
                 cwd=cwd, timeout=timeout + 60)
    return rc, out


def check_obligations(pid, log):
    """Compile the cone of Properties_<pid>.v and re-run coqc on it to capture Print Assumptions.
    Returns dict(obligations, discharged, assumptions, ok, log, failed_file)."""
    src = os.path.join(COQ, "theories", "Properties_%s.v" % pid)
    text = open(src).read()
    names = re.findall(r"^\s*Theorem\s+(\w+)", text, re.M)
    info = {"obligations": len(names), "theorems": names, "discharged": 0, "assumptions": {}, "ok": False,
            "log": "", "failed": None}
    guard = forbidden_scan()
    if guard:
        info["log"] = "forbidden construct: " + "; ".join(guard)
        info["failed"] = "grep-guard: " + "; ".join(guard)
        return info
    ok, out = coq_make(["theories/Properties_%s.vo" % pid], log)
    if not ok:
        m = re.findall(r'File "\./([^"]+)", line (\d+)', out)
        info["log"] = out[-4000:]
        info["failed"] = ("%s line %s" % m[-1]) if m else "make"
        return info
    with Lock("coq"):
        rc, out = sh(["coqc", "-q", "-Q", "theories", "GF", "-Q", "gen", "GFgen", "-w", "-all",
                      "theories/Properties_%s.v" % pid], cwd=COQ, timeout=1800)
    info["log"] = out[-6000:]
    if rc != 0:
        info["failed"] = "Properties_%s.v" % pid
        return info
    # one Print Assumptions block per theorem, in order
    blocks = re.split(r"(?=Closed under the global context|Axioms:)", out)
    blocks = [b for b in blocks if b.startswith("Closed") or b.startswith("Axioms:")]
    for n, b in zip(names, blocks):
        if b.startswith("Closed"):
            info["assumptions"][n] = []
        else:
            info["assumptions"][n] = sorted(set(re.findall(r"^([A-Za-z_][\w.']*)\s*:", b[len("Axioms:"):], re.M)))
    info["discharged"] = min(len(blocks), len(names))
    info["ok"] = info["discharged"] == info["obligations"] and info["obligations"] > 0
    return info


ALLOWED_AXIOMS = {
    # standard-library axioms only (named in DESIGN.md section 8)
    "ClassicalDedekindReals.sig_forall_dec", "ClassicalDedekindReals.sig_not_dec",
    "FunctionalExtensionality.functional_extensionality_dep", "Classical_Prop.classic",
    "functional_extensionality_dep", "sig_forall_dec", "sig_not_dec", "classic",
}


def coqchk(ctx):
    """thorough tier: re-check the compiled cone of the property with the independent checker and list its axioms."""
    with Lock("coq"):
        rc, out = sh(["timeout", "3000", "coqchk", "-silent", "-o", "-Q", "theories", "GF", "-Q", "gen", "GFgen",
                      "GF.Properties_%s" % ctx.pid], cwd=COQ, timeout=3100)
    m = re.search(r"\* Axioms:(.*?)\* Constants/Inductives relying on type-in-type:(.*?)\* Constants/Inductives relying on unsafe \(co\)fixpoints:(.*?)\* Inductives whose positivity is assumed:(.*)", out, re.S)
    res = {"coqchk_exit": rc}
    if m:
        clean = lambda x: " ".join(x.split())
        res.update({"coqchk_axioms": clean(m.group(1)), "coqchk_type_in_type": clean(m.group(2)),
                    "coqchk_unsafe_fixpoints": clean(m.group(3)), "coqchk_assumed_positivity": clean(m.group(4))})
    bad = rc != 0 or not m or any(res[k] != "<none>" for k in ("coqchk_type_in_type", "coqchk_unsafe_fixpoints", "coqchk_assumed_positivity"))
    if m and res["coqchk_axioms"] != "<none>":
        names = re.findall(r"([A-Za-z_][\w.']*)\s*:", res["coqchk_axioms"])
        if any(n.split(".")[-1] not in {x.split(".")[-1] for x in ALLOWED_AXIOMS} for n in names):
            bad = True
    if bad:
        violation(ctx, "coqchk", {"what": "coqchk does not accept the compiled cone of Properties_%s.v" % ctx.pid, "output": out[-3000:]},
                  no_failing_input=True)
    return res


def forbidden_scan():
    bad = []
    for root in (os.path.join(COQ, "theories"), os.path.join(COQ, "gen")):
        for fn in sorted(os.listdir(root)):
            if not fn.endswith(".v"):
                continue
            txt = open(os.path.join(root, fn)).read()
            txt = re.sub(r"\(\*.*?\*\)", "", txt, flags=re.S)
            for m in FORBIDDEN.finditer(txt):
                bad.append("%s: %s" % (fn, m.group(0)))
    return bad


def cbytes(b):
    """Render bytes as a Gallina term of type list N."""
    b = bytes(b)
    if len(b) > 4000:          # coqc's parser recurses on a list literal: long inputs are written as a concatenation of pieces
        return "(concat [" + ";".join(cbytes(b[i:i + 2000]) for i in range(0, len(b), 2000)) + "])"
    if all(32 <= c < 127 and c != 34 for c in b):
        return '(bs "%s")' % b.decode("ascii")
    return "[" + ";".join(str(c) for c in b) + "]%N"


def cbool(x):
    return "true" if x else "false"


def cgores(obs):
    st = obs["status"]
    if st == "ok":
        return "(GOk %s)" % cbytes(unb64(obs["out"]))
    return {"err": "GErr", "panic": "GPanic", "crash": "GPanic", "hang": "GHang"}[st]


def coq_verdicts(pid, imports, check_fn, items, log, shard=400, tag="cases"):
    """items: list of (id, coq_term_of_case).  Evaluates `check_fn case` (a N verdict: 0 agree,
    1 spec violated, 2 model/implementation disagree but spec not shown violated) for each case
    inside Coq with vm_compute.  Returns {id: verdict}."""
    wd = os.path.join(WORK, pid)
    os.makedirs(wd, exist_ok=True)
    verdicts = {}
    procs = []
    for si in range(0, len(items), shard):
        chunk = items[si:si + shard]
        name = "%s_%s_%d" % (tag, pid, si // shard)
        path = os.path.join(wd, name + ".v")
        with open(path, "w") as f:
            f.write("From GF Require Import %s.\nOpen Scope N_scope.\n" % " ".join(imports))
            f.write("Definition cases := [\n")
            f.write(";\n".join("(%d, %s)" % (i, t) for i, t in chunk))
            f.write("\n].\n")
            f.write("Definition verdicts := Eval vm_compute in "
                    "filter (fun p => negb (snd p =? 0)) (map (fun c => (fst c, %s (snd c))) cases).\n" % check_fn)
            f.write("Print verdicts.\n")
        procs.append((chunk, path, subprocess.Popen(
            ["timeout", "1800", "coqc", "-q", "-Q", os.path.join(COQ, "theories"), "GF", "-Q",
             os.path.join(COQ, "gen"), "GFgen", "-w", "-all", os.path.basename(path)],
            cwd=wd, stdout=subprocess.PIPE, stderr=subprocess.STDOUT)))
    for chunk, path, p in procs:
        out = p.communicate()[0].decode("utf-8", "replace")
        if p.returncode != 0:
            log("coqc %s failed:\n%s" % (path, out[-3000:]))
            raise RuntimeError("cases file did not compile: " + path)
        flat = " ".join(out.split())
        m = re.search(r"verdicts = (\[.*?\]) : list", flat)
        if not m:
            raise RuntimeError("cannot parse coqc output of " + path + ": " + flat[:500])
        for i, _ in chunk:
            verdicts[i] = 0
        for a, b in re.findall(r"\((\d+), (\d+)\)", m.group(1)):
            verdicts[int(a)] = int(b)
    return verdicts


# --------------------------------------------------------------------------- results

class Ctx:
    def __init__(self, pid, tier, seed):
        self.pid, self.tier, self.seed = pid, tier, seed
        self.rng = random.Random(seed * 1000003 + int(pid[1:]))
        self.t0 = time.time()
        self.logs = []
        self.violations = []   # (replay_path, no_failing_input)
        self.known = []
        self.coverage = {}
        self.assumptions = []

    def log(self, msg):
        self.logs.append(msg)
        sys.stderr.write("[%s] %s\n" % (self.pid, msg))


def load_known():
    try:
        return json.load(open(os.path.join(VERIF, "known_findings.json")))
    except OSError:
        return []


def violation(ctx, kind, payload, no_failing_input=False):
    """Record a violation; writes the replay file and prints the VIOLATION line (or a
    KNOWN-FINDING line when the failing case matches an entry of known_findings.json)."""
    os.makedirs(REPLAYS, exist_ok=True)
    payload = dict(payload, property=ctx.pid, kind=kind, seed=ctx.seed, tier=ctx.tier,
                   verdict="no-failing-input-found" if no_failing_input else "failing-input")
    key = hashlib.sha1(json.dumps(payload, sort_keys=True).encode()).hexdigest()[:10]
    for k in load_known():
        if k.get("status") == "finding" and k.get("property") == ctx.pid and not no_failing_input:
            if k.get("match", {}).get("case_sha1") == payload.get("case_sha1") and payload.get("case_sha1"):
                print("KNOWN-FINDING: property=%s %s" % (ctx.pid, k.get("what", "")))
                ctx.known.append(k.get("what", ""))
                return
    path = os.path.join(REPLAYS, "%s-%s.json" % (ctx.pid, key))
    with open(path, "w") as f:
        json.dump(payload, f, indent=1, sort_keys=True)
    ctx.violations.append((path, no_failing_input))
    try:
        print("VIOLATION property=%s replay=%s%s" % (ctx.pid, path, " no-failing-input-found" if no_failing_input else ""), flush=True)
    except BrokenPipeError:      # the reader of our stdout went away: the exit status still says it
        pass
    sys.stdout.flush()


def write_evidence(ctx, obl, coverage, assumptions):
    os.makedirs(EVID, exist_ok=True)
    cov = {
        "obligations": max(1, obl["obligations"]),
        "discharged": obl["discharged"],
        "checker_cmd": "make -C /verif/coq theories/Properties_%s.vo && coqc -Q theories GF -Q gen GFgen theories/Properties_%s.v (Print Assumptions under every theorem)" % (ctx.pid, ctx.pid),
        "trusted_base": TRUSTED_BASE + ["Print Assumptions: " + "; ".join(
            "%s: %s" % (k, ", ".join(v) if v else "closed under the global context") for k, v in obl["assumptions"].items())],
        "theorems": obl["theorems"],
    }
    cov.update(coverage)
    if ctx.tier == "thorough" and obl.get("ok"):
        cov.update(coqchk(ctx))
        cov["checker_cmd"] += " ; coqchk -silent -o -Q theories GF -Q gen GFgen GF.Properties_%s" % ctx.pid
    ev = {"property_id": ctx.pid, "tier": ctx.tier, "seed": ctx.seed, "level": "proof", "coverage": cov,
          "assumptions": assumptions, "wall_s": round(time.time() - ctx.t0, 2),
          "violations": len(ctx.violations)}
    if ctx.known:
        ev["known_findings"] = ctx.known
    with open(os.path.join(EVID, ctx.pid + ".json"), "w") as f:
        json.dump(ev, f, indent=1)


TRUSTED_BASE = [
    "Coq 8.16.1 kernel (coqc), vm_compute for finite sweeps and model evaluation; no native_compute",
    "no axioms declared by the development (grep guard on every run)",
    "spec side: coq/theories/Alphabet.v, Codon spec, Spec definitions (read against properties.jsonl)",
    "translator: harness/go/cmd/dump executes the table constructors of the current tree -> coq/gen/Tables.v",
    "correspondence check: harness/py generators + harness/go/cmd/run + coqc evaluation of the model on the same cases",
    "modelled not verified: Go runtime, bufio.Scanner token limit, strings/strconv/sort library behaviour",
]


def run_binary(binpath, args, stdin=None, timeout=20, env=None):
    """Run the gofasta binary.  Returns (class, exit_code, stdout, stderr) with class in ok|err|panic|hang."""
    try:
        p = subprocess.run([binpath] + args, input=stdin, stdout=subprocess.PIPE, stderr=subprocess.PIPE, timeout=timeout,
                           env=env or os.environ)
    except subprocess.TimeoutExpired as e:
        return "hang", None, e.stdout or b"", e.stderr or b""
    cls = "ok" if p.returncode == 0 else ("panic" if p.returncode == 2 and b"goroutine" in p.stderr else "err")
    return cls, p.returncode, p.stdout, p.stderr
