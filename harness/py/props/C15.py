"""C15: windowing, padding, wrapping and input-channel options only select or re-lay-out."""
import os
import tempfile
import common as cm
import cmdlayer
import gen
import anno
import samgen
import vcommon

IMPORTS = ["Base", "Harness", "Cigar", "SamModel", "TopaModel", "Check_C15"]
CHECK_FN = "check_C15"
RULE = ("groups of runs on one input: sam toMultiAlign untrimmed / --start,--end (each alone, both) x --pad x --wrap; "
        "sam toPairAlign untrimmed / windowed x --wrap (random multi-record queries, and runs of single-record queries with "
        "equal total inserted length at different sites handled by one worker); variants unrestricted / --start alone / --end alone / both. Within a "
        "group the implementation's outputs are compared with each other as the statement says (columns s..e of the "
        "untrimmed row; --pad masks outside the window; cut from the column of base s to that of base e; removing line "
        "breaks gives the unwrapped text; kept mutations = those with s <= p <= e), and every run is compared with the Coq "
        "model. Through the built binary: legacy --trimstart/--trimend vs --start/--end, exhaustive small windows, and "
        "variants reading the alignment from stdin vs from the file. Non-trivial: a window or wrap is in effect. Distinct "
        "by content.")
ASSUMPTIONS = ["cobra flag parsing is trusted; the cmd-level flag reconciliation is exercised through the binary"]
_state = {}


def toma_case(cid, ref, recs, opts, group, role):
    samb = samgen.render_sam("ref", len(ref), recs)
    go = {"id": cid, "op": "toma", "sam": cm.b64(samb), **opts}
    def coq(obs):
        return "(WToma (%d%%nat, %s, %d%%nat, (%d)%%Z, (%d)%%Z, %s, None, %s))" % (
            len(ref), samgen.coq_records(recs), opts["wrap"], opts["start"], opts["end"], cm.cbool(opts["pad"]), cm.cgores(obs))
    nt = opts["wrap"] > 0 or opts["start"] != -1 or opts["end"] != -1
    return {"id": cid, "go": go, "coq": coq, "meta": {"kind": "toma", "nontrivial": nt, "group": group, "role": role, "opts": opts},
            "sample": {"cmd": "sam toMultiAlign", "sam": samb.decode(), **opts}}


def topa_case(cid, ref, recs, opts, group, role):
    samb = samgen.render_sam("theref", len(ref), recs)
    refb = gen.layout(None, [("theref", ref)], "plain")
    files = [b[0]["name"] + ".fasta" for b in samgen.blocks_of(recs)]
    go = {"id": cid, "op": "topa", "sam": cm.b64(samb), "ref": cm.b64(refb), "files": files, "omit_ref": False, "omit_ins": False, **opts}
    def coq(obs):
        return "(WTopa (%s, %s, %s, %d%%nat, (%d)%%Z, (%d)%%Z, false, false, None, %s))" % (
            cm.cbytes(refb), cm.cbytes(b"theref"), samgen.coq_records(recs), opts["wrap"], opts["start"], opts["end"], cm.cgores(obs))
    nt = opts["wrap"] > 0 or opts["start"] != -1 or opts["end"] != -1
    return {"id": cid, "go": go, "coq": coq, "meta": {"kind": "topa", "nontrivial": nt, "group": group, "role": role, "opts": opts},
            "sample": {"cmd": "sam toPairAlign", "sam": samb.decode(), "reference": ref, **opts}}


def windows(rng, L):
    s = rng.randint(1, L)
    e = rng.randint(s, L)
    return [(-1, -1), (s, -1), (-1, e), (s, e)]


def generate(ctx):
    rng = ctx.rng
    cs = []
    cid = 0
    g = 0
    n = 8 if ctx.tier == "quick" else 120
    for _ in range(n):
        L = rng.choice([8, 15, 30])
        ref = gen.rand_seq(rng, L)
        recs = []
        for qi in range(rng.randint(1, 3)):
            recs += samgen.make_query_topa(rng, ref, "q%d" % qi)
        for pad in (False, True):
            for (s, e) in windows(rng, L):
                for w in (0, rng.choice([1, 3, L + 2])):
                    cs.append(toma_case(cid, ref, recs, {"pad": pad, "start": s, "end": e, "wrap": w, "threads": 2}, (g, pad), (s, e, w)))
                    cid += 1
        g += 1
        for (s, e) in windows(rng, L):
            for w in (0, rng.choice([1, 4])):
                cs.append(topa_case(cid, ref, recs, {"start": s, "end": e, "wrap": w, "threads": 2}, (g, "topa"), (s, e, w)))
                cid += 1
        g += 1
    # toPairAlign, one worker: consecutive queries whose gapped references have the SAME width (equal total inserted
    # length) but different insertion sites, windows with an end between the sites
    for _ in range(n):
        L = rng.choice([10, 16, 30])
        ref = gen.rand_seq(rng, L)
        ilen = rng.randint(1, 3)
        recs = []
        sites = []
        for qi in range(rng.randint(2, 4)):
            a = rng.randint(1, L - 1)
            sites.append(a)
            if rng.random() < 0.7:
                cig = [("M", a), ("I", ilen), ("M", L - a)]
            else:       # same total inserted length split over two sites
                b = rng.randint(a, L - 1)
                cig = [("M", a), ("I", ilen), ("M", L - a)] if (ilen < 2 or b == a) else [("M", a), ("I", 1), ("M", b - a), ("I", ilen - 1), ("M", L - b)]
            recs.append({"name": "q%d" % qi, "flag": 0, "pos": 0, "cigar": cig, "seq": samgen.build_seq(rng, cig, 0, gen.mutate(rng, ref, p_sub=0.1, p_amb=0, p_gap=0, p_lower=0))})
        lo, hi = min(sites), max(sites)
        s0 = rng.randint(max(1, lo), max(1, hi))
        e0 = rng.randint(s0, L)
        for (s, e) in [(-1, -1), (s0, -1), (-1, max(1, min(L, rng.randint(lo, max(lo, hi))))), (s0, e0)]:
            for w in (0, rng.choice([1, 4])):
                cs.append(topa_case(cid, ref, recs, {"start": s, "end": e, "wrap": w, "threads": 1}, (g, "topa"), (s, e, w)))
                cid += 1
        g += 1
    for _ in range(n):
        suffix = rng.choice(["gb", "gff"])
        genome, feats, ref_row, rows = vcommon.random_setup(rng, mod3_segments=True)
        if not feats:
            continue
        wins = windows(rng, len(genome))
        if rng.random() < 0.35:
            # an insertion before the first reference base (position 0) and windows that start at base 1: s <= p drops it
            ref_row, rows = anno.make_msa(rng, genome, len(rows), lead=True)
            e1 = rng.randint(1, len(genome))
            wins = [(-1, -1), (1, -1), (-1, e1), (1, e1)]
        msa, recs = vcommon.build_msa(rng, ref_row, rows, refpos="first", style="plain")
        annob = anno.render_genbank(genome, feats, rng) if suffix == "gb" else anno.render_gff(genome, feats, mix=rng)
        append = rng.random() < 0.5
        for (s, e) in wins:
            c = vcommon.variants_case(cid, msa, "REF", annob, suffix, {"kind": "variants", "nontrivial": (s, e) != (-1, -1), "group": (g, "var"),
                                                                        "role": (s, e, 0), "opts": {"start": s, "end": e}},
                                      start=s, end=e, append_snps=append,
                                      info={"ref_row": ref_row, "queries": [(nm, r) for nm, r in recs if nm != "REF"], "features": feats, "genbank": suffix == "gb",
                                            "msa": msa, "annob": annob, "suffix": suffix})
            f = c["coq"]
            c["coq"] = (lambda f=f: (lambda obs: "(WVar %s)" % f(obs)))()
            cs.append(c)
            cid += 1
        # the same windows under --aggregate: a window selects rows of the table, it changes no frequency (the Coq model of the aggregate writer and the statement-level comparison with the unrestricted table)
        for (s, e) in wins:
            c = vcommon.variants_case(cid, msa, "REF", annob, suffix, {"kind": "variants-agg", "nontrivial": (s, e) != (-1, -1), "group": (g, "agg"),
                                                                        "role": (s, e, 0), "opts": {"start": s, "end": e}},
                                      start=s, end=e, append_snps=append, aggregate=True, threshold=0.0, info={})
            f = c["coq"]
            c["coq"] = (lambda f=f: (lambda obs: "(WVar %s)" % f(obs)))()
            cs.append(c)
            cid += 1
        g += 1
    return cs


def unwrap_fasta(b):
    """records (header, joined sequence) of a FASTA text."""
    recs = []
    for l in b.decode().split("\n"):
        if l.startswith(">"):
            recs.append([l, ""])
        elif l and recs:
            recs[-1][1] += l
    return recs


def post_go(ctx, cases, obs):
    bad = []
    groups = {}
    for c in cases:
        groups.setdefault(c["meta"]["group"], []).append(c)
    def flag(c, msg):
        c["sample"].setdefault("oracle_problems", []).append(msg)
        if c not in bad:
            bad.append(c)
    for gk, cl in groups.items():
        base = [c for c in cl if c["meta"]["role"] == (-1, -1, 0)]
        if not base or obs[base[0]["id"]]["status"] != "ok":
            if base:
                flag(base[0], "unrestricted run failed: " + obs[base[0]["id"]].get("err", "")[:200])
            continue
        b0 = cm.unb64(obs[base[0]["id"]]["out"])
        kind = base[0]["meta"]["kind"]
        for c in cl:
            o = obs[c["id"]]
            s, e, w = c["meta"]["role"]
            if o["status"] != "ok":
                flag(c, "valid options refused: %s %s" % (o["status"], o.get("err", "")[:200]))
                continue
            out = cm.unb64(o["out"])
            if kind == "toma":
                full = unwrap_fasta(b0)
                got = unwrap_fasta(out)
                L = len(full[0][1]) if full else 0
                ss, ee = (1 if s == -1 else s), (L if e == -1 else e)
                pad = c["meta"]["opts"]["pad"]
                exp = [[h, ("".join(ch if ss - 1 <= i < ee else "N" for i, ch in enumerate(q)) if pad else q[ss - 1:ee])] for h, q in full]
                if got != exp:
                    flag(c, "window/wrap changed more than selection and layout: got %r expected %r" % (got[:2], exp[:2]))
                if w > 0 and any(len(l) > w for l in out.decode().split("\n") if l and not l.startswith(">")):
                    flag(c, "a wrapped line is longer than --wrap")
            elif kind == "topa":
                fullf = b0.decode().split("==")
                gotf = out.decode().split("==")
                for fi in range(2, len(fullf), 2):
                    full = unwrap_fasta(fullf[fi].encode())
                    got = unwrap_fasta(gotf[fi].encode())
                    R = full[0][1]
                    cols = [i for i, ch in enumerate(R) if ch != "-"]
                    n = len(cols)
                    ss, ee = (1 if s == -1 else s), (n if e == -1 else e)
                    a, b = (cols[ss - 1], cols[ee - 1] + 1) if (s, e) != (-1, -1) else (0, len(R))
                    exp = [[h, q[a:b]] for h, q in full]
                    if got != exp:
                        flag(c, "pair window is not the cut from the column of base %d to that of base %d: got %r expected %r" % (ss, ee, got, exp))
            elif kind == "variants-agg":
                import re
                def apos(m):
                    if m.startswith(("ins:", "del:")):
                        return int(m.split(":")[1])
                    if m.startswith("nuc:"):
                        return int(re.match(r"nuc:[^0-9-]+(-?\d+)", m).group(1))
                    return None
                frow = [l for l in b0.decode().split("\n")[1:] if l]
                grow = [l for l in out.decode().split("\n")[1:] if l]
                inw = lambda p: not ((s > 0 and p < s) or (e > 0 and p > e))
                keep = [l for l in frow if apos(l.rsplit(",", 1)[0]) is not None and inw(apos(l.rsplit(",", 1)[0]))]
                if [l for l in grow if apos(l.rsplit(",", 1)[0]) is not None] != keep:
                    flag(c, "--aggregate under the window %s..%s lists %r; the rows of the unrestricted table with s <= p <= e are %r" % (s, e, grow, keep))
                if not set(l for l in grow if apos(l.rsplit(",", 1)[0]) is None) <= set(frow):
                    flag(c, "--aggregate under the window %s..%s has an amino-acid row (or frequency) that the unrestricted table does not have: %r vs %r" % (s, e, grow, frow))
            else:
                full = anno.parse_rows(b0)[1]
                got = anno.parse_rows(out)[1]
                import re
                def pos(m):
                    if m.startswith(("ins:", "del:")):
                        return int(m.split(":")[1])
                    if m.startswith("nuc:"):
                        return int(re.match(r"nuc:[^0-9-]+(-?\d+)", m).group(1))
                    return None
                for (n1, m1), (n2, m2) in zip(full, got):
                    keep = [m for m in m1 if pos(m) is not None and not ((s > 0 and pos(m) < s) or (e > 0 and pos(m) > e))]
                    if [m for m in m2 if pos(m) is not None] != keep:
                        flag(c, "%s: window keeps %r, expected exactly the mutations with %s <= p <= %s: %r" % (n1, m2, s, e, keep))
                    if not set(m for m in m2 if pos(m) is None) <= set(m1):
                        flag(c, "%s: windowed run reports aa records the unrestricted run does not" % n1)
    return bad


def extra(ctx, obl, cases, obs):
    """cmd-level behaviour through the built binary."""
    n = 1 if ctx.tier == "quick" else 8
    _state["layer_runs"] = cmdlayer.sam_layer(ctx, "toma", n) + cmdlayer.sam_layer(ctx, "topa", n) + cmdlayer.variants_layer(ctx, n) + cmdlayer.sam_layer(ctx, "variants", n)
    binp = cm.build_binary(ctx.log)
    runs = 0
    if not binp:
        cm.violation(ctx, "binary-build", {"what": "gofasta does not build"}, no_failing_input=True)
        return
    rng = ctx.rng
    tmp = tempfile.mkdtemp(prefix="verif-c15-")
    try:
        # (a) legacy flags and exhaustive small windows on one SAM
        L = 9
        ref = gen.rand_seq(rng, L)
        recs = []
        for qi in range(2):
            recs += samgen.make_query_topa(rng, ref, "q%d" % qi)
        samp = os.path.join(tmp, "a.sam")
        open(samp, "wb").write(samgen.render_sam("ref", L, recs))
        def toma(args):
            cls, rc, out, err = cm.run_binary(binp, ["sam", "toMultiAlign", "-s", samp] + args)
            return cls, out
        cls0, full = toma([])
        runs += 1
        for s in range(1, L + 1):
            for e in range(s, L + 1):
                c1, new = toma(["--start", str(s), "--end", str(e)])
                c2, old = toma(["--trimstart", str(s - 1), "--trimend", str(e)])
                runs += 2
                exp = "".join(l + "\n" if l.startswith(">") else l[s - 1:e] + "\n" for l in full.decode().split("\n") if l).encode()
                if c1 != "ok" or c2 != "ok" or new != old or new != exp:
                    cm.violation(ctx, "failing-input", {"what": "sam toMultiAlign --start %d --end %d / legacy --trimstart %d --trimend %d / columns of the untrimmed output disagree" % (s, e, s - 1, e),
                                                        "sam": open(samp).read(), "new": new.decode(), "legacy": old.decode(), "expected": exp.decode()})
                    return
        # ... each bound alone: --start s = legacy --trimstart s-1, --end e = legacy --trimend e, with and without --pad / --trim
        for k in range(1, L + 1):
            for extra_ in ([], ["--pad"], ["--trim"]):
                new_extra = [x for x in extra_ if x != "--trim"]
                for new_a, old_a, exp_f in ((["--start", str(k)], ["--trimstart", str(k - 1)], lambda l: l[k - 1:]),
                                            (["--end", str(k)], ["--trimend", str(k)], lambda l: l[:k])):
                    c1, new = toma(new_a + new_extra)
                    c2, old = toma(old_a + extra_)
                    runs += 2
                    exp = "".join(l + "\n" if l.startswith(">") else exp_f(l) + "\n" for l in full.decode().split("\n") if l).encode()
                    if c1 != "ok" or c2 != "ok" or new != old or (not new_extra and new != exp):
                        cm.violation(ctx, "failing-input", {"what": "sam toMultiAlign %s / legacy %s / the columns of the untrimmed output disagree" % (" ".join(new_a + new_extra), " ".join(old_a + extra_)),
                                                            "sam": open(samp).read(), "new": new.decode(), "legacy": old.decode(), "expected_without_pad": exp.decode()})
                        return
        # (b) variants: stdin (reference first) equals file
        for _ in range(6 if ctx.tier == "quick" else 40):
            suffix = rng.choice(["gb", "gff"])
            genome, feats, ref_row, rows = vcommon.random_setup(rng, mod3_segments=True)
            if not feats:
                continue
            msa, _ = vcommon.build_msa(rng, ref_row, rows, refpos="first", style="plain")
            annob = anno.render_genbank(genome, feats, rng) if suffix == "gb" else anno.render_gff(genome, feats, mix=rng)
            mp, ap = os.path.join(tmp, "m.fasta"), os.path.join(tmp, "a." + suffix)
            open(mp, "wb").write(msa)
            open(ap, "wb").write(annob)
            a1 = cm.run_binary(binp, ["variants", "--msa", mp, "-r", "REF", "-a", ap, "--append-snps"])
            a2 = cm.run_binary(binp, ["variants", "-r", "REF", "-a", ap, "--append-snps"], stdin=msa)
            runs += 2
            if a1[0] != "ok" or a2[0] != "ok" or a1[2] != a2[2]:
                cm.violation(ctx, "failing-input", {"what": "variants reading the alignment from stdin differs from reading the same file",
                                                    "msa": msa.decode(), "annotation": annob.decode(), "file": [a1[0], a1[2].decode(), a1[3].decode()[-300:]],
                                                    "stdin": [a2[0], a2[2].decode(), a2[3].decode()[-300:]]})
                return
    finally:
        import shutil
        shutil.rmtree(tmp, ignore_errors=True)
        _state["binary_runs"] = runs


def coverage_extra(ctx):
    return {"binary_runs": _state.get("binary_runs", 0)}
