"""C08: updown topranking bins, ranks and limits neighbours exactly as specified."""
import common as cm
import cmdlayer
import gen
import udgen

IMPORTS = ["Base", "Harness", "TopRankModel", "Check_C08"]
CHECK_FN = "check_C08"
RULE = ("references over A/C/G/T; queries and targets drawn from a small pseudo-tree (ancestor, child, grandchild, "
        "siblings) with ambiguity tracts and multiple hits (a third of the cases instead build the targets bin by bin around "
        "one query with 0-8 candidates per bin in shuffled file order, so some bins exceed the requested capacity while others "
        "stay under it), so that all four bins, shared SNPs, distance ties and ambiguity "
        "ties occur; option sets: --size-total, --size-*, (incl. -1 = all), --no-fill, --dist-all/--dist-*, --dist-push, "
        "--threshold-pair, --threshold-target, --ignore, list and --table output. Table-form outputs are checked against an "
        "oracle written from the statement (bin by which sequence carries A/C/G/T differences the other lacks; distance = "
        "columns where both are A/C/G/T and differ; each bin a prefix of its candidates ordered by distance, ambiguities, "
        "file order; size clauses of the fill; --dist-push = targets at the k smallest occurring distances); every output is "
        "compared byte for byte with the Coq model. Non-trivial: >=2 bins are non-empty or a limit binds. Distinct by content.")
ASSUMPTIONS = ["reference over A/C/G/T (as the property's quantifier says)", "sort.SliceStable is a stable sort"]


def tr_case(cid, ref, queries, targets, o, rng, meta, qtype="fasta", ttype="fasta", qbytes=None, tbytes=None):
    refb = gen.layout(rng, [("ref", ref)], "plain")
    qb = qbytes if qbytes is not None else gen.layout(rng, queries, "plain")
    tb = tbytes if tbytes is not None else gen.layout(rng, targets, rng.choice(["plain", "wrap"]))
    go = {"id": cid, "op": "topranking", "ref": cm.b64(refb), "query": cm.b64(qb), "target": cm.b64(tb), "qtype": qtype, "ttype": ttype, **o}
    k, m, e = (lambda x: (0, 0, 0) if x == 0 else ((1,) + (lambda nd: (nd[0], -(nd[1].bit_length() - 1)))(float(udgen.f32(x)).as_integer_ratio())))(o["threshpair"])
    def coq(obs):
        ign = "[" + ";".join(cm.cbytes(x.encode()) for x in o["ignore"]) + "]"
        opts = "(mk_opts %s %s ((%d)%%Z, (%d)%%Z, (%d)%%Z, (%d)%%Z, (%d)%%Z) ((%d)%%Z, (%d)%%Z, (%d)%%Z, (%d)%%Z) (%d, %d%%Z, (%d)%%Z) (%d)%%Z %s (%d)%%Z)" % (
            cm.cbool(o["table"]), ign, o["sizetotal"], o["sizeup"], o["sizedown"], o["sizeside"], o["sizesame"],
            o["distall"], o["distup"], o["distdown"], o["distside"], k, m, e, o["threshtarg"], cm.cbool(o["nofill"]), o["distpush"])
        return "(%s, %s, %s, %s, %s)" % (opts, cm.cbytes(refb), cm.cbytes(qb), cm.cbytes(tb), cm.cgores(obs))
    return {"id": cid, "go": go, "coq": coq, "meta": meta,
            "sample": {"reference": ref, "queries": queries, "targets": targets, "options": o},
            "info": {"ref": ref, "queries": queries, "targets": targets, "opts": o}}


def generate(ctx):
    rng = ctx.rng
    cs = []
    n = 120 if ctx.tier == "quick" else 1500
    for cid in range(n):
        if cid % 3 == 2:
            ref, queries, targets, o = udgen.crowded_case(rng)
        else:
            ref, queries, targets = udgen.make_inputs(rng)
            o = udgen.random_opts(rng, len(targets))
        nt = len({udgen.pair_stats(ref, queries[0][1], t)[0] for _, t in targets}) >= 2
        cs.append(tr_case(cid, ref, queries, targets, o, rng, {"kind": "size" if not o["distpush"] else "push", "nontrivial": nt}))
    return cs


def post_go(ctx, cases, obs):
    bad = []
    for c in cases:
        o = obs[c["id"]]
        if o["status"] != "ok":
            c["sample"]["oracle_problems"] = ["valid input refused: %s %s" % (o["status"], o.get("err", "")[:200])]
            bad.append(c)
            continue
        if not c["info"]["opts"]["table"]:
            continue
        probs = udgen.check_rows(c["info"]["ref"], c["info"]["queries"], c["info"]["targets"], c["info"]["opts"], cm.unb64(o["out"]).decode())
        if probs:
            c["sample"]["oracle_problems"] = probs[:5]
            bad.append(c)
    return bad


def extra(ctx, obl, cases, obs):
    """the command through the built binary (cmd/*.go): binary = library entry point, and the option handling the command does itself"""
    n = 2 if ctx.tier == "quick" else 12
    _cmd_state["binary_runs"] = cmdlayer.updown_layer(ctx, 'topranking', n)


_cmd_state = {}


def coverage_extra(ctx):
    return {"binary_runs": _cmd_state.get("binary_runs", 0)}
