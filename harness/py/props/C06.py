"""C06: closest returns exactly the nearest targets under the documented total order."""
import common as cm
import gen
import vcommon

IMPORTS = ["Base", "Harness", "Check_C06"]
CHECK_FN = "check_C06"
MEAS = {"raw": 0, "snp": 1, "tn93": 2}
RULE = ("targets are drawn from a small pool of mutated copies of a random reference, so that distance ties, "
        "completeness ties and exact duplicates are frequent; all-N / heavily ambiguous targets placed first, in the "
        "middle and last; K in {1,2,3,n-1,n,n+2}, -d equal to an occurring distance or not, measures raw/snp/tn93, "
        "--table on/off, plain closest. Non-trivial: the target file contains duplicates (ties) or a target with an "
        "undefined distance, or a family of targets tying on distance with different SNPs and completeness. Distinct by case content. tn93 distances are taken from the Go function through the "
        "verif export (the model cannot evaluate ln); ranking, tie-breaking and printing are the model's.")
ASSUMPTIONS = ["tn93 keys come from the implementation (C07 decides their value)",
               "sort.SliceStable is a stable sort"]


def coq_float_parts(p):
    k, m, e = p
    return "(%d, %s%%Z, (%d)%%Z)" % (k, m, e)


def make_case(cid, mode, K, maxd, measure, table, q, t, threads, meta):
    go = {"id": cid, "op": "closest", "query": cm.b64(q), "target": cm.b64(t), "measure": measure, "n": K,
          "table": table, "threads": threads, "matrix": measure == "tn93"}
    if maxd is not None:
        go["maxdist"] = maxd
    def coq(obs):
        mat = (obs.get("extra") or {}).get("matrix") or []
        orc = "[" + ";".join("[" + ";".join(coq_float_parts(p) for p in row) + "]" for row in mat) + "]"
        if maxd is None:
            md = "None"
        else:
            num, den = float(maxd).as_integer_ratio()
            md = "(Some ((%d)%%Z, (%d)%%Z))" % (num, -(den.bit_length() - 1))
        return "(%d, %d%%nat, %s, %d, %s, %s, %s, %s, %s)" % (mode, K, md, MEAS[measure], cm.cbool(table), orc,
                                                            cm.cbytes(q), cm.cbytes(t), cm.cgores(obs))
    return {"id": cid, "go": go, "coq": coq, "meta": meta,
            "sample": {"mode": "closestN" if mode else "closest", "n": K, "maxdist": maxd, "measure": measure, "table": table,
                       "query": q.decode("latin1"), "target": t.decode("latin1")}}


def generate(ctx):
    rng = ctx.rng
    cs = []
    cid = 0
    N = 70 if ctx.tier == "quick" else 1200
    for _ in range(N):
        w = rng.choice([4, 8, 20, 60])
        ref = gen.rand_seq(rng, w)
        pool = [gen.mutate(rng, ref, p_sub=0.15, p_amb=rng.choice([0, 0.1, 0.3]), p_gap=0.05, p_lower=0.05)
                for _ in range(rng.randint(1, 4))]
        big = rng.random() < 0.3          # long tie-rich target files: >= 13 candidates exercise the sort beyond small-slice paths
        nt = rng.randint(13, 26) if big else rng.randint(1, 8)
        if big:
            pool = pool[:rng.randint(1, 3)]
        targets = [rng.choice(pool) for _ in range(nt)]
        undefined = False
        if rng.random() < 0.35:
            pos = rng.choice([0, len(targets) // 2, len(targets)])
            targets.insert(pos, rng.choice(["N" * w, "-" * w, "".join(rng.choice("NRY?") for _ in range(w))]))
            undefined = True
        queries = [gen.mutate(rng, ref, p_sub=0.1, p_amb=0.05) for _ in range(rng.randint(1, 3))]
        tiefam = w >= 8 and rng.random() < 0.25
        if tiefam:
            # a family of targets at the SAME distance from the first query, each differing from it at other sites and
            # with another number of Ns: the winner is decided by completeness, then file order, and its SNP list is its own
            base = "".join(c if c in "ACGT" else r for c, r in zip(queries[0].upper(), ref))
            queries[0] = base
            d = rng.choice([1, 1, 2])
            fam = []
            for _ in range(rng.randint(3, 8)):
                sites = rng.sample(range(w), d + rng.randint(0, 3))
                row = list(base)
                for j, i in enumerate(sites):
                    row[i] = rng.choice([c for c in "ACGT" if c != base[i]]) if j < d else "N"
                fam.append("".join(row))
            targets = fam + ([rng.choice(pool)] if rng.random() < 0.5 else [])
            rng.shuffle(targets)
        if rng.random() < 0.15:
            queries[0] = "N" * w
            undefined = True
        q = gen.layout(rng, [("q%d" % i, s) for i, s in enumerate(queries)], "plain")
        t = gen.layout(rng, [("t%d" % i, s) for i, s in enumerate(targets)], rng.choice(["plain", "wrap"]))
        measure = rng.choice(["raw", "snp", "tn93"])
        mode = 0 if rng.random() < (0.6 if tiefam else 0.3) else 1
        if tiefam and rng.random() < 0.6:
            measure = "snp"
        n = len(targets)
        K = 0
        maxd = None
        table = False
        if mode == 1:
            K = rng.choice([0, 1, 2, 3, max(1, n - 1), n, n + 2] + ([12, 13, n // 2 + 6, n - 2] if big else []))
            if K == 0 or rng.random() < 0.4:
                if measure == "snp":
                    maxd = float(rng.choice([0, 1, 2, 3, w]))
                elif measure == "raw":
                    a = rng.randint(0, 4)
                    maxd = rng.choice([0.0, 0.25, 1.0, a / max(1, w), a / max(1, w - 1)])
                else:
                    maxd = rng.choice([0.0, 0.05, 0.5, 10.0])
            table = rng.random() < 0.5
        dup = len(set(targets)) < len(targets)
        cs.append(make_case(cid, mode, K, maxd, measure, table, q, t, rng.choice([0, 1, 2, 4]),
                            {"kind": "%s:%s%s" % ("closestN" if mode else "closest", measure, ":big" if big else ":tiefam" if tiefam else ""), "nontrivial": dup or undefined or tiefam}))
        cid += 1
    return cs


_state = {}


def extra(ctx, obl, cases, obs):
    _state["binary_runs"] = vcommon.closest_cmd_layer(ctx, cm, gen, n_inputs=2 if ctx.tier == "quick" else 10)


def coverage_extra(ctx):
    return {"binary_runs": _state.get("binary_runs", 0)}
