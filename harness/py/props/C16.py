"""C16: FASTA reading is layout-independent, strict, total and the same in every reader."""
import common as cm
import gen

IMPORTS = ["Base", "Harness", "Check_C16"]
CHECK_FN = "check_C16"
READERS = {"plain": 0, "enc": 1, "score": 2, "list": 3, "findref": 4}
RULE = ("(i) valid alignments under random re-layouts (line width, CRLF, blank lines, no final newline, mixed case), each "
        "through all five readers (ReadAlignment, ReadEncodeAlignment, ReadEncodeScoreAlignment, "
        "ReadEncodeAlignmentToList, findReference), soft and hard gaps; the plain reader's result is also compared with "
        "the generator's own records (an oracle independent of the model); (ii) a malformed stream: structured "
        "mutations of valid files and short random byte strings. Non-trivial: layout other than one-line-per-sequence, "
        "or malformed. Distinct by (reader, file bytes).")
ASSUMPTIONS = ["header text is ASCII (strings.Fields on UTF-8 white space is outside the model)",
               "lines shorter than the 1 MiB scanner token limit (long lines of 70,000 and 200,000 symbols are exercised Go against Go: "
               "one-line layout vs 70-column layout must read alike in every reader; a line of 1.1 MB must be refused with an error by every reader, not end the file quietly)"]


def make_case(cid, reader, hard, refid, data, meta, expect=None):
    go = {"id": cid, "op": "read_fasta", "reader": reader, "hard": hard, "file": cm.b64(data), "refid": cm.b64(refid)}
    return {"id": cid, "go": go,
            "coq": lambda obs: "(%d, %s, %s, %s, %s)" % (READERS[reader], cm.cbool(hard), cm.cbytes(refid), cm.cbytes(data), cm.cgores(obs)),
            "meta": meta, "expect": expect,
            "sample": {"reader": reader, "hard_gaps": hard, "file": data.decode("latin1"), "refid": refid.decode("latin1")}}


def ser(recs):
    out = b""
    for i, (h, s) in enumerate(recs):
        ident = h.split()[0].encode()
        out += b"%d;%d:%s%d:%s%d:%s\n" % (i, len(ident), ident, len(h), h.encode(), len(s), s.upper().encode())
    return out


def generate(ctx):
    rng = ctx.rng
    cs = []
    cid = 0
    nvalid = 25 if ctx.tier == "quick" else 400
    for _ in range(nvalid):
        w = rng.choice([1, 2, 5, 17, 60])
        n = rng.randint(1, 5)
        recs = [(gen.rand_name(rng, i), gen.rand_seq(rng, w, gen.SYMS32)) for i in range(n)]
        style = rng.choice(["plain", "wrap", "crlf", "blank", "mixed", "nofinal"])
        data = gen.layout(rng, recs, style)
        refid = recs[rng.randrange(n)][0].split()[0].encode() if rng.random() < 0.8 else b"absent"
        for reader in READERS:
            hard = rng.random() < 0.5
            cs.append(make_case(cid, reader, hard, refid, data,
                                {"kind": "valid:" + style, "nontrivial": style != "plain"},
                                expect=ser(recs) if reader == "plain" else None))
            cid += 1
    nbad = 40 if ctx.tier == "quick" else 800
    for _ in range(nbad):
        w = rng.choice([1, 3, 8])
        recs = [(gen.rand_name(rng, i), gen.rand_seq(rng, w, gen.SYMS17)) for i in range(rng.randint(1, 5))]
        data = gen.layout(rng, recs)
        kind, data = gen.corrupt(rng, data)
        if rng.random() < 0.3:
            kind2, data = gen.corrupt(rng, data)
            kind += "+" + kind2
        if rng.random() < 0.2:      # blank lines in odd places
            lines = data.split(b"\n")
            lines.insert(rng.randrange(len(lines) + 1), b"")
            data = b"\n".join(lines)
            kind += "+blank"
        # the reference looked for by the fifth reader (variants.findReference): any record, so that the corruption can
        # sit before, at or after it
        refid = recs[rng.randrange(len(recs))][0].split()[0].encode()
        for reader in READERS:
            cs.append(make_case(cid, reader, rng.random() < 0.5, refid, data, {"kind": "malformed:" + kind.split("+")[0], "nontrivial": True}))
            cid += 1
    # directed: a header without an ID (">" alone or ">" + white space) at every position relative to the reference record
    for _ in range(12 if ctx.tier == "quick" else 120):
        n = rng.randint(2, 5)
        w = rng.choice([1, 3, 8])
        recs = [(gen.rand_name(rng, i), gen.rand_seq(rng, w, gen.SYMS17)) for i in range(n)]
        h = rng.randrange(n)
        refi = rng.randrange(n)
        refid = recs[refi][0].split()[0].encode()
        recs2 = list(recs)
        recs2[h] = (rng.choice(["", " ", "\t", "  "]), recs[h][1])
        data = gen.layout(rng, recs2, rng.choice(["plain", "wrap", "crlf"]))
        for reader in READERS:
            cs.append(make_case(cid, reader, rng.random() < 0.5, refid, data,
                                {"kind": "malformed:noid@%s" % ("before" if h < refi else "at" if h == refi else "after"), "nontrivial": True}))
            cid += 1
    return cs


def post_go(ctx, cases, obs):
    """Generator-side oracle for the plain reader on valid layouts."""
    bad = []
    for c in cases:
        if c.get("expect") is not None:
            o = obs[c["id"]]
            if o["status"] != "ok" or cm.unb64(o["out"]) != c["expect"]:
                bad.append(c)
    return bad


def extra(ctx, obl, cases, obs):
    """Long lines (beyond bufio.Scanner's 64 KiB default, within the readers' 1 MiB limit): layout independence Go vs Go."""
    rng = ctx.rng
    stage = []
    plan = []
    for width in ([70000] if ctx.tier == "quick" else [70000, 200000]):
        recs = [("long%d extra text" % i, gen.rand_seq(rng, width, gen.SYMS17)) for i in range(2)]
        one = gen.layout(rng, recs, "plain")
        wrapped = b"".join(b">" + h.encode() + b"\n" + b"\n".join(s[i:i + 70].encode() for i in range(0, len(s), 70)) + b"\n" for h, s in recs)
        for reader in READERS:
            hard = rng.random() < 0.5
            a, b = len(stage), len(stage) + 1
            stage.append({"id": a, "op": "read_fasta", "reader": reader, "hard": hard, "file": cm.b64(one), "refid": cm.b64(b"long1")})
            stage.append({"id": b, "op": "read_fasta", "reader": reader, "hard": hard, "file": cm.b64(wrapped), "refid": cm.b64(b"long1")})
            plan.append((reader, width, a, b))
    res = cm.go_run(stage, ctx.log)
    _state["long_line_runs"] = len(stage)
    for reader, width, a, b in plan:
        ra, rb = res[a], res[b]
        if ra["status"] != "ok" or rb["status"] != "ok" or ra.get("out") != rb.get("out"):
            cm.violation(ctx, "failing-input", {
                "what": "reader %s: two records of %d symbols read differently as one line per sequence (%s %s) and wrapped at 70 columns (%s %s)"
                        % (reader, width, ra["status"], ra.get("err", "")[:120], rb["status"], rb.get("err", "")[:120]),
                "case": {"op": "read_fasta", "reader": reader, "note": "file omitted (two records of %d random symbols on one line each)" % width}})

    # a line beyond the readers' 1 MiB limit - a header after two complete records, a third sequence line of the first record:
    # "either read or rejected with an error": every reader refuses it (or, should the limit ever be raised, reads ALL of it);
    # the records read so far are never returned as if they were the file
    big = 1100000
    files = {"a header line of 1.1 MB after two complete records": (b">a\nACGT\n>b\nACGT\n>" + b"x" * big + b"\nACGT\n", 3),
             "a third sequence line of 1.1 MB in the first record": (b">a\n" + b"ACGT" * 15 + b"\n" + b"ACGT" * 15 + b"\n" + b"A" * big + b"\n", 1)}
    stage2, plan2 = [], []
    for what, (data, nrec) in files.items():
        for reader in READERS:
            stage2.append({"id": len(stage2), "op": "read_fasta", "reader": reader, "hard": False, "file": cm.b64(data), "refid": cm.b64(b"a")})
            plan2.append((what, reader, nrec))
    res2 = cm.go_run(stage2, ctx.log)
    _state["over_limit_runs"] = len(stage2)
    for k, (what, reader, nrec) in enumerate(plan2):
        o = res2[k]
        if o["status"] == "err":
            continue
        out = cm.unb64(o.get("out", "")) if o["status"] == "ok" else b""
        complete = o["status"] == "ok" and (reader == "findref" or out.count(b"\n") == nrec) and len(out) > (big if nrec == 1 or reader != "findref" else 0)
        if not complete:
            cm.violation(ctx, "failing-input", {
                "what": "reader %s, %s: neither refused with an error nor read whole (status %s, %d bytes of records returned)" % (reader, what, o["status"], len(out)),
                "case": {"op": "read_fasta", "reader": reader, "note": "file omitted: " + what}, "returned": out[:300].decode("latin1")})


_state = {}


def coverage_extra(ctx):
    return {"long_line_runs": _state.get("long_line_runs", 0), "over_limit_runs": _state.get("over_limit_runs", 0)}
