"""C03: snps reports exactly the certainly-different sites."""
import common as cm
import cmdlayer
import gen

IMPORTS = ["Base", "Harness", "Check_C03"]
CHECK_FN = "check_C03"


def make_case(cid, hard, ref, aln, meta):
    return {"id": cid,
            "go": {"id": cid, "op": "snps", "ref": cm.b64(ref), "aln": cm.b64(aln), "hard": hard},
            "coq": lambda obs: "(%s, %s, %s, %s)" % (cm.cbool(hard), cm.cbytes(ref), cm.cbytes(aln), cm.cgores(obs)),
            "meta": meta,
            "sample": {"hard_gaps": hard, "reference": ref.decode("latin1"), "alignment": aln.decode("latin1")}}


def generate(ctx):
    rng = ctx.rng
    cases = []
    cid = 0
    # (a) the complete symbol-pair grid, both gap modes: reference = the 32 accepted characters,
    # query k = the same characters rotated by k, padded so pairs also occur at columns >= 10 and >= 100
    syms = gen.SYMS32
    for hard in (False, True):
        pad = rng.choice([0, 9, 99])
        ref = "A" * pad + syms
        recs = []
        for k in range(len(syms)):
            q = "A" * pad + syms[k:] + syms[:k]
            recs.append(("rot%d" % k, q))
        aln = gen.layout(rng, recs, "plain")
        cases.append(make_case(cid, hard, gen.layout(rng, [("ref", ref)], "plain"), aln,
                               {"kind": "grid", "nontrivial": True, "rows": len(recs)}))
        cid += 1
    # (b) random alignments under random layouts
    n_rand = 60 if ctx.tier == "quick" else 600
    for _ in range(n_rand):
        hard = rng.random() < 0.5
        w = rng.choice([1, 2, 3, 7, 12, 30, 101, 150])
        refalpha = "ACGT" if rng.random() < 0.5 else gen.SYMS17
        ref = gen.rand_seq(rng, w, refalpha)
        n = rng.randint(1, 6)
        recs = [(gen.rand_name(rng, i), gen.mutate(rng, ref, p_amb=0.15, p_gap=0.08)) for i in range(n)]
        amb = any(c.upper() not in "ACGT" for _, s in recs for c in s) or any(c not in "ACGT" for c in ref)
        aln = gen.layout(rng, recs)
        cases.append(make_case(cid, hard, gen.layout(rng, [("ref " + str(cid), ref)]), aln,
                               {"kind": "random", "nontrivial": amb, "rows": n, "width": w}))
        cid += 1
    # (b') rows of very different lengths next to one another: 60 records over 120 columns, every third one differing from the
    # reference in most columns (more than 64 SNPs), the others in one to three (a worker's row must not change while it waits
    # for its turn in the writer); drawn from a PRNG of its own
    import random
    wr = random.Random(9090 + ctx.seed)
    for _ in range(3 if ctx.tier == "quick" else 20):
        hard = wr.random() < 0.5
        ref = "".join(wr.choice("ACGT") for _ in range(120))
        recs = []
        for i in range(60):
            sq = list(ref)
            for j in (range(120) if i % 3 == 0 else wr.sample(range(120), wr.randint(1, 3))):
                if i % 3 != 0 or wr.random() < 0.8:
                    sq[j] = wr.choice([c for c in "ACGT" if c != ref[j]])
            recs.append(("m%d" % i, "".join(sq)))
        cases.append(make_case(cid, hard, gen.layout(wr, [("ref", ref)], "plain"), gen.layout(wr, recs, "plain"),
                               {"kind": "long-and-short-rows", "nontrivial": True, "rows": 60, "width": 120}))
        cid += 1
    # (b'') many records that differ from one another only in WHICH any-base symbol they carry at a column (N, n, ?, -, and
    # the ambiguity codes), against a reference with gaps and codes there, both gap modes: the symbol printed is the record's own
    for hard in (False, True):
        ref = list("".join(wr.choice("ACGT") for _ in range(30)))
        cols = wr.sample(range(30), 6)
        for j, sym in zip(cols, "--NRY?"):
            ref[j] = sym
        ref = "".join(ref)
        recs = []
        for i in range(80):
            sq = list(ref)
            for j in cols:
                sq[j] = wr.choice("N?n-RYKMacgtACGT")
            recs.append(("y%d" % i, "".join(sq)))
        cases.append(make_case(cid, hard, gen.layout(wr, [("ref", ref)], "plain"), gen.layout(wr, recs, "plain"),
                               {"kind": "any-base-symbols", "nontrivial": True, "rows": 80, "width": 30}))
        cid += 1
    # (c) malformed stream
    n_bad = 30 if ctx.tier == "quick" else 300
    for _ in range(n_bad):
        hard = rng.random() < 0.5
        w = rng.choice([1, 4, 9])
        ref = gen.rand_seq(rng, w)
        recs = [(gen.rand_name(rng, i), gen.mutate(rng, ref)) for i in range(rng.randint(1, 4))]
        refb = gen.layout(rng, [("ref", ref)])
        alnb = gen.layout(rng, recs)
        which = rng.choice(["ref", "aln", "tworefs"])
        if which == "ref":
            kind, refb = gen.corrupt(rng, refb)
        elif which == "aln":
            kind, alnb = gen.corrupt(rng, alnb)
        else:
            kind, refb = "tworefs", refb + refb
        cases.append(make_case(cid, hard, refb, alnb, {"kind": "malformed:" + kind, "nontrivial": False}))
        cid += 1
    return cases


def extra(ctx, obl, cases, obs):
    """the command through the built binary (cmd/*.go): binary = library entry point, and the option handling the command does itself"""
    n = 2 if ctx.tier == "quick" else 12
    _cmd_state["binary_runs"] = cmdlayer.snps_layer(ctx, n)


_cmd_state = {}


def coverage_extra(ctx):
    return {"binary_runs": _cmd_state.get("binary_runs", 0)}
