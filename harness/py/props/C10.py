"""C10: updown list is a lossless summary of each sequence relative to the reference."""
import common as cm
import cmdlayer
import gen

IMPORTS = ["Base", "Harness", "Check_C10"]
CHECK_FN = "check_C10"
RULE = ("random references (A/C/G/T, or with IUPAC codes) and alignments with ambiguity runs at either end, "
        "length-1 runs, runs separated by one base, all-ambiguous and all-identical sequences, under random FASTA "
        "layouts; plus a malformed stream. Non-trivial: the sequence has >=2 ambiguity runs or a run touching an end. "
        "Distinct by case content.")


def make_case(cid, ref, aln, meta):
    return {"id": cid, "go": {"id": cid, "op": "updown_list", "ref": cm.b64(ref), "aln": cm.b64(aln)},
            "coq": lambda obs: "(%s, %s, %s)" % (cm.cbytes(ref), cm.cbytes(aln), cm.cgores(obs)),
            "meta": meta, "sample": {"reference": ref.decode("latin1"), "alignment": aln.decode("latin1")}}


def runs_seq(rng, ref):
    """A query built from stretches: copy / substitute / ambiguity run."""
    out = []
    i = 0
    n = len(ref)
    while i < n:
        kind = rng.choice(["copy", "copy", "sub", "amb", "amb1", "gap"])
        L = 1 if kind in ("amb1", "sub") else rng.randint(1, max(1, n // 3))
        seg = ref[i:i + L]
        if kind == "copy":
            out.append(seg)
        elif kind == "sub":
            out.append(rng.choice("ACGT"))
        elif kind in ("amb", "amb1"):
            out.append("".join(rng.choice("NRYSWKMBDHV?-n") for _ in seg))
        else:
            out.append("-" * len(seg))
        i += L
    s = "".join(out)[:n]
    return "".join(c.lower() if rng.random() < 0.1 else c for c in s)


def nruns(s):
    amb = [c.upper() not in "ACGT" for c in s]
    return sum(1 for i, a in enumerate(amb) if a and (i == 0 or not amb[i - 1]))


def generate(ctx):
    rng = ctx.rng
    cs = []
    cid = 0
    for _ in range(80 if ctx.tier == "quick" else 1500):
        w = rng.choice([1, 2, 3, 5, 8, 13, 40, 120])
        ref = gen.rand_seq(rng, w, "ACGT" if rng.random() < 0.7 else gen.SYMS17)
        recs = []
        for i in range(rng.randint(1, 5)):
            k = rng.random()
            if k < 0.1:
                s = "".join(rng.choice("N-?RY") for _ in ref)
            elif k < 0.2:
                s = ref
            else:
                s = runs_seq(rng, ref)
            recs.append((gen.rand_name(rng, i), s))
        nt = any(nruns(s) >= 2 or (s and (s[0].upper() not in "ACGT" or s[-1].upper() not in "ACGT")) for _, s in recs)
        cs.append(make_case(cid, gen.layout(rng, [("ref", ref)]), gen.layout(rng, recs),
                            {"kind": "random", "nontrivial": nt}))
        cid += 1
    # one alignment wider than 65,536 columns: ambiguity runs that cross column 65,536, lie beyond it and end the sequence, SNPs on
    # both sides (positions and range bounds are whole numbers of any size); drawn from a PRNG of its own
    import random
    wr = random.Random(4242 + ctx.seed)
    W = 70000
    wref = "".join(wr.choice("ACGT") for _ in range(W))
    wide = []
    for i in range(2):
        sq = list(wref)
        for a, b in ((65530 - i, 65545 + i), (66000, 66000), (69990, W - 1 if i == 0 else 69995), (10, 12)):
            for j in range(a, b + 1):
                sq[j] = wr.choice("NRY-")
        for j in wr.sample(range(W), 6) + [65535, 65536, 65537]:
            if sq[j] in "ACGT":
                sq[j] = wr.choice([c for c in "ACGT" if c != wref[j]])
        wide.append(("wide%d" % i, "".join(sq)))
    # ... and one record that differs from the reference at every one of the first 12,000 columns and has an ambiguity every fourth
    # column after that for a while: a single row of well over 64 KiB, between two short ones
    sq = list(wref)
    for j in range(12000):
        sq[j] = wr.choice([c for c in "ACGT" if c != wref[j]])
    for j in range(12000, 20000, 4):
        sq[j] = "N"
    wide.insert(1, ("long_row", "".join(sq)))
    cs.append(make_case(cid, gen.layout(wr, [("ref", wref)], "plain"), gen.layout(wr, wide, "plain"), {"kind": "wide", "nontrivial": True}))
    cid += 1
    for _ in range(20 if ctx.tier == "quick" else 200):
        ref = gen.rand_seq(rng, 6)
        recs = [(gen.rand_name(rng, i), runs_seq(rng, ref)) for i in range(rng.randint(1, 3))]
        refb, alnb = gen.layout(rng, [("ref", ref)]), gen.layout(rng, recs)
        # only corruptions that cannot make a record LONGER than the reference run in-process (a longer
        # record makes a worker goroutine panic after the error is returned); those go through the binary in C18
        kind, alnb2 = gen.corrupt(rng, alnb)
        if kind in ("dupbyte", "longer", "randbytes", "nohdr", "emptyhdr"):
            kind, alnb2 = "badsym", alnb.replace(b"A", b"!", 1)
        cs.append(make_case(cid, refb, alnb2, {"kind": "malformed:" + kind, "nontrivial": False}))
        cid += 1
    return cs


def extra(ctx, obl, cases, obs):
    """the command through the built binary (cmd/*.go): binary = library entry point, and the option handling the command does itself"""
    n = 2 if ctx.tier == "quick" else 12
    _cmd_state["binary_runs"] = cmdlayer.updown_layer(ctx, 'list', n)


_cmd_state = {}


def coverage_extra(ctx):
    return {"binary_runs": _cmd_state.get("binary_runs", 0)}
