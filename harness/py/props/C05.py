"""C05: indels are reported in reference coordinates whatever the alignment's columns."""
import common as cm
import gen
import anno
import vcommon
import samgen
from vcommon import IMPORTS, CHECK_FN

RULE = ("gapped reference/query rows with many insertions and deletions (adjacent to each other, to feature boundaries and "
        "to both ends); each case is run twice: as generated and with k random double-gap columns inserted into every row "
        "(the metamorphic companion of C05_invariant_under_double_gap_columns) - the two outputs must be byte-identical; "
        "every row is also checked against ins/del lists computed from the statement, and the Coq model is compared byte "
        "for byte. SAM form: the same pairwise relations written as one SAM record per query (CIGAR from the rows, all queries "
        "handled by one worker, runs of queries with equal total inserted length at different sites included) are given to "
        "`sam variants`, whose rows must equal the FASTA-MSA rows. Non-trivial: the query has >=2 indels. Distinct by case content.")
ASSUMPTIONS = ["the Coq model is the FASTA-MSA form; the SAM form is compared Go against Go (and against the statement oracle through the MSA rows)"]


def cigar_of(ref, que):
    ops = []
    for r, q in zip(ref, que):
        o = "I" if r == "-" else "D" if q == "-" else "M"
        if ops and ops[-1][0] == o:
            ops[-1] = (o, ops[-1][1] + 1)
        else:
            ops.append((o, 1))
    return ops


def equal_width_pairs(rng, genome):
    """2-4 pairwise rows whose insertions have the same total length at different reference positions, plus a deletion or
    substitution elsewhere: consecutive queries with gapped references of equal width."""
    n = len(genome)
    tot = rng.randint(1, 3)
    out = []
    for _ in range(rng.randint(2, 4)):
        a = rng.randint(1, n - 2)
        d = rng.randint(1, n - 3)
        dl = rng.randint(1, 2)
        ref, que = [], []
        for i in range(n):
            if d <= i < d + dl and not (i == 0 or i == n - 1):
                ref.append(genome[i]); que.append("-")
            else:
                ref.append(genome[i]); que.append(genome[i] if rng.random() < 0.9 else rng.choice("ACGT"))
            if i + 1 == a:
                ref.append("-" * tot); que.append(gen.rand_seq(rng, tot))
        out.append(("".join(ref), "".join(que)))
    return out


def indel_rows(rng, genome):
    """Reference and query rows rich in indels."""
    n = len(genome)
    ref, que = [], []
    i = 0
    if rng.random() < 0.3:      # leading insertion
        L = rng.randint(1, 3)
        ref.append("-" * L)
        que.append(gen.rand_seq(rng, L))
    while i < n:
        r = rng.random()
        if r < 0.12:
            L = rng.randint(1, 4)
            seg = genome[i:i + L]
            ref.append(seg)
            que.append("-" * len(seg))
            i += len(seg)
        elif r < 0.24:
            L = rng.randint(1, 3)
            ref.append("-" * L)
            que.append(gen.rand_seq(rng, L))
        else:
            ref.append(genome[i])
            que.append(genome[i] if rng.random() < 0.9 else rng.choice("ACGTN"))
            i += 1
    if rng.random() < 0.3:      # trailing insertion
        L = rng.randint(1, 3)
        ref.append("-" * L)
        que.append(gen.rand_seq(rng, L))
    return "".join(ref), "".join(que)


def merge_rows(pairs):
    """Combine pairwise (ref,que) rows into one MSA: columns are aligned on reference bases; an insertion of one
    query is a double-gap column for the others."""
    n = len([c for c in pairs[0][0] if c != "-"])
    # per pair: insertion text after k reference bases
    ins = []
    bases = []
    for ref, que in pairs:
        d = {}
        b = []
        k = 0
        for r, q in zip(ref, que):
            if r == "-":
                d[k] = d.get(k, "") + q
            else:
                b.append(q)
                k += 1
        ins.append(d)
        bases.append(b)
    genome = [c for c in pairs[0][0] if c != "-"]
    ref_row = []
    rows = [[] for _ in pairs]
    for k in range(n + 1):
        w = max(len(d.get(k, "")) for d in ins)
        if w:
            ref_row.append("-" * w)
            for j, d in enumerate(ins):
                rows[j].append(d.get(k, "").ljust(w, "-"))
        if k < n:
            ref_row.append(genome[k])
            for j in range(len(pairs)):
                rows[j].append(bases[j][k])
    return "".join(ref_row), ["".join(r) for r in rows]


def add_double_gaps(rng, ref_row, rows, k):
    cols = sorted(rng.randint(0, len(ref_row)) for _ in range(k))
    def ins(s):
        out = []
        prev = 0
        for c in cols:
            out.append(s[prev:c])
            out.append("-")
            prev = c
        out.append(s[prev:])
        return "".join(out)
    return ins(ref_row), [ins(r) for r in rows]


def generate(ctx):
    rng = ctx.rng
    cs = []
    cid = 0
    n = 40 if ctx.tier == "quick" else 600
    for _ in range(n):
        suffix = rng.choice(["gb", "gff"])
        L = rng.choice([24, 36, 60])
        genome = gen.rand_seq(rng, L)
        feats = anno.random_features(rng, L, max_feats=2, mod3_segments=True)
        genome, feats = anno.patch_stops(rng, genome, feats)
        if not feats:
            continue
        pairs = equal_width_pairs(rng, genome) if rng.random() < 0.3 else [indel_rows(rng, genome) for _ in range(rng.randint(1, 3))]
        ref_row, rows = merge_rows(pairs)
        annob = anno.render_genbank(genome, feats, rng) if suffix == "gb" else anno.render_gff(genome, feats, mix=rng)
        variants = [(ref_row, rows, "plain")]
        variants.append(add_double_gaps(rng, ref_row, rows, rng.randint(1, 5)) + ("dgap",))
        group = cid
        for rr, rws, tag in variants:
            msa, recs = vcommon.build_msa(rng, rr, rws, refpos="first")
            nind = max(len(anno.expected_indels(rr, r)) for r in rws)
            cs.append(vcommon.variants_case(cid, msa, "REF", annob, suffix,
                                            {"kind": "%s:%s" % (suffix, tag), "nontrivial": nind >= 2, "group": group},
                                            append_snps=True,
                                            info={"ref_row": rr, "queries": [(nm, r) for nm, r in recs if nm != "REF"],
                                                  "features": feats, "genbank": suffix == "gb", "pairs": pairs if tag == "plain" else None,
                                                  "genome": genome, "annob": annob, "suffix": suffix}))
            cid += 1
    return cs


def post_go(ctx, cases, obs):
    bad = []
    groups = {}
    for c in cases:
        probs = vcommon.oracle_rows(c, obs[c["id"]], check_complete=True)
        if obs[c["id"]]["status"] != "ok":
            probs.append("valid input refused or crashed: %s" % obs[c["id"]]["status"])
        groups.setdefault(c["meta"]["group"], []).append(c)
        if probs:
            c["sample"]["oracle_problems"] = probs[:5]
            bad.append(c)
    for g, cl in groups.items():
        outs = {obs[c["id"]].get("out") for c in cl}
        if len(outs) > 1:
            c = cl[-1]
            c["sample"]["oracle_problems"] = ["output changed when double-gap columns were added (companion case id %d)" % cl[0]["id"]]
            if c not in bad:
                bad.append(c)
    # ---- SAM form of the same pairwise relations
    def get_pairs(c):
        pairs = c["info"].get("pairs")
        return [("q%d" % k, ref, que.replace("?", "N")) for k, (ref, que) in enumerate(pairs)] if pairs else None
    _state["sam_form_runs"] = vcommon.sam_form_stage(ctx, cm, gen, samgen, anno, cases, obs, bad, get_pairs)
    return bad


_state = {}


def coverage_extra(ctx):
    return {"sam_form_runs": _state.get("sam_form_runs", 0)}
