"""C13: --aggregate frequencies are exactly the per-sequence results, counted."""
import random
import common as cm
import cmdlayer
import gen
import anno
import vcommon

IMPORTS = ["Base", "Harness", "Check_C13"]
CHECK_FN = "check_C13"
RULE = ("each generated input (snps: reference + alignment, both gap modes; variants: annotated genome + msa, GenBank or "
        "GFF, --append-snps on/off, optional window whose bounds mostly sit exactly on a mutated position, two- or one-sided; in 40% of them several sequences carry the same amino-acid change "
        "through different codons) is run in per-sequence mode and in --aggregate mode with thresholds "
        "0, 1, an occurring frequency printed to full precision, and one just above it; the oracle recounts from the "
        "implementation's own per-sequence output: each distinct mutation once, frequency = count / number of query "
        "sequences to 9 decimals, kept iff frequency >= threshold, non-decreasing genomic position; the Coq model of both "
        "aggregators (counting, total sort key, float64 division, 'f',9 formatting) is compared byte for byte. "
        "Non-trivial: >=2 sequences share a mutation. Distinct by case content.")
ASSUMPTIONS = ["sam variants groups are decided by the recount oracle (Go against the statement), not by the Coq model; its per-sequence equality with variants is C11"]


def snps_case(cid, hard, thr, ref, aln, meta):
    k, m, e = vcommon.float_parts(thr)
    return {"id": cid, "go": {"id": cid, "op": "snps", "ref": cm.b64(ref), "aln": cm.b64(aln), "hard": hard, "aggregate": True, "threshold": thr},
            "coq": lambda obs: "(CSnps (%s, (%d, %d%%Z, (%d)%%Z), %s, %s, %s))" % (cm.cbool(hard), k, m, e, cm.cbytes(ref), cm.cbytes(aln), cm.cgores(obs)),
            "meta": meta, "sample": {"cmd": "snps --aggregate", "hard_gaps": hard, "threshold": thr, "reference": ref.decode(), "alignment": aln.decode()},
            "info": {}}


def same_aa_by_different_codons(rng, genome, feats, ref_row, rows):
    """Rewrite one codon of a feature in >= 2 rows so that the rows carry the SAME amino-acid change through DIFFERENT
    nucleotide changes (e.g. S -> L by TTA in one row and CTG in another): one aggregated aa mutation, several SNP sets."""
    import itertools
    col = [i for i, c in enumerate(ref_row) if c != "-"]
    rows = [list(r) for r in rows]
    for f in rng.sample(feats, len(feats)):
        ps = f.positions()
        ncod = len(ps) // 3
        for ci in rng.sample(range(ncod), ncod):
            trip = ps[3 * ci:3 * ci + 3]
            cod = "".join(genome[p - 1] for p in trip)
            if f.strand == "-":
                cod = "".join(anno.COMP[c] for c in cod)
            ra = anno.translate_codon(cod)
            groups = {}
            for alt in ("".join(t) for t in itertools.product("ACGT", repeat=3)):
                a = anno.translate_codon(alt)
                if alt != cod and a != ra:
                    groups.setdefault(a, []).append(alt)
            cands = [v for v in groups.values() if len(v) >= 2]
            if not cands:
                continue
            alts = rng.choice(cands)
            rng.shuffle(alts)
            for k, row in enumerate(rows):
                alt = alts[k % min(len(alts), 3)]
                if f.strand == "-":
                    alt = "".join(anno.COMP[c] for c in alt)
                for p, ch in zip(trip, alt):
                    row[col[p - 1]] = ch
            return ["".join(r) for r in rows]
    return ["".join(r) for r in rows]


def generate(ctx):
    rng = ctx.rng
    cs = []
    cid = 0
    n = 14 if ctx.tier == "quick" else 200
    for g in range(n):
        # ---- snps
        w = rng.choice([6, 15, 40])
        ref = gen.rand_seq(rng, w)
        base = gen.mutate(rng, ref, p_sub=0.2, p_amb=0.05, p_gap=0.05)
        bigs = g < 2
        nrec = [25, 29][g % 2] if bigs else rng.randint(1, 6)
        recs = [("s%d" % i, base if rng.random() < 0.5 else gen.mutate(rng, ref, p_sub=0.2, p_amb=0.05, p_gap=0.05)) for i in range(nrec)]
        hard = rng.random() < 0.5
        refb, alnb = gen.layout(rng, [("r", ref)], "plain"), gen.layout(rng, recs, "plain")
        nseq = len(recs)
        thrs = [0.0, 1.0]
        c = rng.randint(1, nseq)
        thrs += [c / nseq, min(1.0, c / nseq + 1e-9)]
        thrs = sorted(set(thrs))
        if bigs:
            thrs = sorted(set(k / nseq for k in range(0, nseq + 1)))
        shared = len({s for _, s in recs}) < len(recs)
        persq = {"id": cid, "go": {"id": cid, "op": "snps", "ref": cm.b64(refb), "aln": cm.b64(alnb), "hard": hard},
                 "coq": None, "meta": {"kind": "snps:perseq", "nontrivial": False, "group": g, "role": "perseq"}, "sample": {"cmd": "snps"}, "info": {}}
        persq["coq"] = (lambda r=refb, a=alnb, h=hard: (lambda obs: "(CSnps (%s, (0, 0%%Z, 0%%Z), %s, %s, GHang))" % (cm.cbool(h), cm.cbytes(r), cm.cbytes(a))))()
        persq["skipcoq"] = True
        cs.append(persq)
        cid += 1
        for t in thrs:
            cs.append(snps_case(cid, hard, t, refb, alnb, {"kind": "snps:agg", "nontrivial": shared, "group": g, "role": "agg", "nseq": nseq, "thr": t}))
            cid += 1
    # ---- a wide alignment: positions of five and of six digits in one table (ordered by position as a NUMBER)
    if True:
        g = 3 * n + 60
        w = 100030
        ref = "".join(rng.choice("ACGT") for _ in range(w))
        sites = [9, 9999, 10000, 99999, 100000, 100010, 100029]
        recs = []
        for i in range(3):
            t = list(ref)
            for p_ in sites[i:] if i else sites:
                t[p_ - 1] = {"A": "C", "C": "G", "G": "T", "T": "A"}[t[p_ - 1]]
            recs.append(("w%d" % i, "".join(t)))
        refb, alnb = gen.layout(rng, [("r", ref)], "plain"), gen.layout(rng, recs, "plain")
        persq = {"id": cid, "go": {"id": cid, "op": "snps", "ref": cm.b64(refb), "aln": cm.b64(alnb), "hard": False},
                 "coq": None, "meta": {"kind": "snps:perseq", "nontrivial": False, "group": g, "role": "perseq"}, "sample": {"cmd": "snps"}, "info": {}, "skipcoq": True}
        cs.append(persq)
        cid += 1
        agg = snps_case(cid, False, 0.0, refb, alnb, {"kind": "snps:agg:wide", "nontrivial": True, "group": g, "role": "agg", "nseq": 3, "thr": 0.0})
        agg["skipcoq"] = True          # 100,030 columns: decided by the recount oracle (each SNP once, count/n, position order)
        agg["sample"] = {"cmd": "snps --aggregate", "note": "reference of 100,030 columns, SNPs at %r" % sites}
        cs.append(agg)
        cid += 1
    for g in range(n, 2 * n):
        # ---- variants
        suffix = rng.choice(["gb", "gff"])
        bign = (g - n) < 2           # two groups with many sequences: n = 25 and n = 29, every threshold k/n
        nqs = [25, 29][(g - n) % 2] if bign else rng.randint(2, 6)
        genome, feats, ref_row, rows = vcommon.random_setup(rng, mod3_segments=True, nq=nqs)
        if not feats:
            continue
        # make sequences share mutations
        if bign:
            protos = rows[:4]
            rows = [rng.choice(protos) for _ in rows]
        else:
            rows = [rows[0] if rng.random() < 0.4 else r for r in rows]
        forced = (g % 3 == 0)          # every third group: one residue change reached through different codons AND --append-snps
        if (rng.random() < 0.4) or forced:
            rows = same_aa_by_different_codons(rng, genome, feats, ref_row, rows)
        msa, recs = vcommon.build_msa(rng, ref_row, rows, refpos=rng.choice(["first", "middle"]))
        if rng.random() < 0.3:
            # a further record named like the reference (it has no row in per-sequence mode, and is no query sequence in
            # --aggregate either), carrying mutations of its own
            extra = gen.mutate(rng, ref_row.replace("-", "A"), p_sub=0.15, p_amb=0.0, p_gap=0.0, p_lower=0.0)
            extra = "".join(c if r != "-" else "-" for c, r in zip(extra, ref_row))
            msa = msa.rstrip(b"\r\n") + b"\n" + gen.layout(rng, [("REF", extra)], "plain")
        annob = anno.render_genbank(genome, feats, rng) if suffix == "gb" else anno.render_gff(genome, feats, mix=rng)
        append = (rng.random() < 0.5) or forced
        win = (rng.random() < 0.5) and not forced
        s, e = (rng.randint(1, len(genome) // 2), rng.randint(len(genome) // 2, len(genome))) if win else (-1, -1)
        if win:
            # window bounds ON a mutated position (or the first base of a codon that carries one): the bounds are inclusive
            # in both writers, and one-sided windows
            refpos, k = [], 0
            for ch in ref_row:
                k += ch != "-"
                refpos.append(k)
            hot = sorted({refpos[i] for r in rows for i, (a, b) in enumerate(zip(ref_row, r)) if a != b and refpos[i] >= 1})
            hot += [ps[3 * (ps.index(p) // 3)] for f in feats for ps in [f.positions()] for p in hot if p in ps]
            if hot and rng.random() < 0.7:
                e = rng.choice(hot)
                s = min(s, e)
            if hot and rng.random() < 0.4:
                s = rng.choice([h for h in hot if h <= e] or [s])
            side = rng.random()
            if side < 0.2:
                s = -1
            elif side < 0.35:
                e = -1
        nseq = len(rows)
        c = rng.randint(1, nseq)
        thrs = sorted(set([0.0, 1.0, c / nseq, min(1.0, c / nseq + 1e-9)]))
        if bign:
            thrs = sorted(set(k / nseq for k in range(0, nseq + 1)))
        shared = len(set(rows)) < len(rows)
        cs.append(dict(vcommon.variants_case(cid, msa, "REF", annob, suffix, {"kind": "variants:perseq", "nontrivial": False, "group": g, "role": "perseq"},
                                             start=s, end=e, append_snps=append), wrap="CVar"))
        cid += 1
        for t in thrs:
            cs.append(dict(vcommon.variants_case(cid, msa, "REF", annob, suffix,
                                                 {"kind": "variants:agg", "nontrivial": shared, "group": g, "role": "agg", "nseq": nseq, "thr": t},
                                                 start=s, end=e, append_snps=append, aggregate=True, threshold=t), wrap="CVar"))
            cid += 1
    # ---- two coding features of ONE name (as pp1ab and pp1a are both /gene="ORF1ab") with a differently named feature listed
    # between them, all sharing their first codons: a sequence carries the change once, however many features report it
    for g in range(3 * n + 50, 3 * n + 52):
        suffix = ["gb", "gff"][g % 2]
        third = 4
        genome = gen.rand_seq(rng, 6 * third + 9)
        feats = [anno.Feature("pp", "+", [(4, 3 + 6 * third)], 1, True), anno.Feature("other", "+", [(4, 3 + 3 * third)], 1, True),
                 anno.Feature("pp", "+", [(4, 3 + 3 * (third - 1))], 1, True)]
        genome, feats = anno.patch_stops(rng, genome, feats)
        if len(feats) != 3:
            continue
        rows = []
        for i in range(4):
            t = list(genome)
            if i < 2:
                # a non-synonymous change in the second codon (positions 7..9), shared by all three features
                cod = genome[6:9]
                alts = [a + b + c for a in "ACGT" for b in "ACGT" for c in "ACGT"
                        if anno.translate_codon(a + b + c) not in (anno.translate_codon(cod), "*")]
                t[6:9] = list(rng.choice(alts))
            rows.append("".join(t))
        msa, recs = vcommon.build_msa(rng, genome, rows, refpos="first")
        annob = anno.render_genbank(genome, feats, rng) if suffix == "gb" else anno.render_gff(genome, feats)
        cs.append(dict(vcommon.variants_case(cid, msa, "REF", annob, suffix, {"kind": "variants:perseq", "nontrivial": False, "group": g, "role": "perseq"}), wrap="CVar"))
        cid += 1
        for t in (0.0, 0.5, 0.75):
            cs.append(dict(vcommon.variants_case(cid, msa, "REF", annob, suffix,
                                                 {"kind": "variants:agg", "nontrivial": True, "group": g, "role": "agg", "nseq": 4, "thr": t},
                                                 aggregate=True, threshold=t), wrap="CVar"))
            cid += 1
    # ---- sam variants (the third command of the statement): per-sequence vs --aggregate on one SAM file; in half of the
    # groups one read carries the name of the reference record (it is not a query: it is left out of both)
    import samgen
    for g in range(2 * n, 2 * n + max(3, n // 2)):
        suffix = rng.choice(["gb", "gff"])
        L = rng.choice([30, 45])
        genome = gen.rand_seq(rng, L)
        feats = anno.random_features(rng, L, max_feats=2, mod3_segments=True)
        genome, feats = anno.patch_stops(rng, genome, feats)
        if not feats:
            continue
        annob = anno.render_genbank(genome, feats, rng) if suffix == "gb" else anno.render_gff(genome, feats, mix=rng)
        nq = rng.randint(3, 6)
        protos = [gen.mutate(rng, genome, p_sub=0.1, p_amb=0.0, p_gap=0.0, p_lower=0.0) for _ in range(2)]
        recs = []
        names = ["q%d" % i for i in range(nq)]
        if g % 2 == 0:
            names[rng.randrange(nq)] = "REF"
            if nq >= 4 and rng.random() < 0.5:
                k = rng.randrange(nq)       # and a second one, not adjacent to the first
                if names[k] != "REF" and all(names[j] != "REF" for j in (k - 1, k + 1) if 0 <= j < nq):
                    names[k] = "REF"
        for nm in names:
            truth = rng.choice(protos)
            cig = [("M", L)] if rng.random() < 0.6 else [("M", L // 2), ("I", 2), ("M", L - L // 2)]
            recs.append({"name": nm, "flag": 0, "pos": 0, "cigar": cig, "seq": samgen.build_seq(rng, cig, 0, truth)})
        samb = samgen.render_sam("REF", L, recs)
        refb = gen.layout(rng, [("REF", genome)], "plain")
        append = rng.random() < 0.5
        nseq = sum(1 for nm in names if nm != "REF")
        thrs = sorted(set([0.0, 1.0] + [k / nseq for k in range(1, nseq + 1)]))
        # a window, two- or one-sided, often with a bound exactly on a position at which some record differs from the reference:
        # the aggregate of a windowed run is the recount of the windowed per-sequence run (drawn from a PRNG of its own)
        wr = random.Random(1000003 * g + len(samb))
        ws, we = -1, -1
        if wr.random() < 0.6:
            hot = sorted({i + 1 for pr in protos for i, (a, b) in enumerate(zip(genome, pr)) if a != b})
            ws, we = wr.randint(1, L // 2), wr.randint(L // 2, L)
            if hot and wr.random() < 0.7:
                we = wr.choice(hot)
                ws = min(ws, we)
            if hot and wr.random() < 0.5:
                ws = wr.choice([h for h in hot if h <= we] or [ws])
            side = wr.random()
            if side < 0.25:
                ws = -1
            elif side < 0.5:
                we = -1
        def sv(cid, aggregate, thr):
            return {"id": cid, "go": {"id": cid, "op": "samvariants", "sam": cm.b64(samb), "ref": cm.b64(refb), "anno": cm.b64(annob), "suffix": suffix,
                                      "ref_from_file": True, "start": ws, "end": we, "append_snps": append, "aggregate": aggregate, "threshold": thr, "threads": 2},
                    "coq": None, "skipcoq": True,
                    "meta": {"kind": "samvariants:" + ("agg" if aggregate else "perseq"), "nontrivial": aggregate, "group": g,
                             "role": "agg" if aggregate else "perseq", "nseq": nseq, "thr": thr},
                    "sample": {"cmd": "sam variants --start %d --end %d" % (ws, we) + (" --aggregate --threshold %r" % thr if aggregate else ""), "sam": samb.decode(),
                               "reference": genome, "annotation": annob.decode(), "suffix": suffix, "append_snps": append}, "info": {}}
        cs.append(sv(cid, False, 0.0))
        cid += 1
        for t in thrs:
            cs.append(sv(cid, True, t))
            cid += 1
    # wrap the coq terms
    for c in cs:
        if c.get("wrap") == "CVar":
            f = c["coq"]
            c["coq"] = (lambda f=f: (lambda obs: "(CVar %s)" % f(obs)))()
        if c.get("skipcoq"):
            # per-sequence snps is C03's business; give Coq a trivially agreeing case
            c["coq"] = lambda obs: "(CSnps (false, (0, 0%Z, 0%Z), [], [], GErr))"
    return cs


def position_of(mut):
    import re
    if mut.startswith(("ins:", "del:")):
        return int(mut.split(":")[1])
    if mut.startswith("nuc:"):
        return int(re.match(r"nuc:[^0-9-]+(-?\d+)", mut).group(1))
    if mut.startswith("aa:"):
        return None
    return int(re.match(r"[^0-9]+(\d+)", mut).group(1))     # snps: A123T


def post_go(ctx, cases, obs):
    bad = []
    groups = {}
    for c in cases:
        groups.setdefault(c["meta"]["group"], []).append(c)
    for g, cl in groups.items():
        per = [c for c in cl if c["meta"]["role"] == "perseq"]
        if not per or obs[per[0]["id"]]["status"] != "ok":
            if per:
                per[0]["sample"]["oracle_problems"] = ["valid input refused: " + obs[per[0]["id"]].get("err", "")[:200]]
                bad.append(per[0])
            continue
        lines = cm.unb64(obs[per[0]["id"]]["out"]).decode().split("\n")[1:]
        rows = [l.partition(",")[2] for l in lines if l]
        lists = [[m for m in r.split("|") if m] for r in rows]
        for l in lists:
            if len(set(l)) != len(l):
                per[0]["sample"]["oracle_problems"] = ["a per-sequence list repeats a mutation: %r" % l]
                if per[0] not in bad:
                    bad.append(per[0])
        nseq = len(lists)
        counts = {}
        for l in lists:
            for m in set(l):
                counts[m] = counts.get(m, 0) + 1
        for c in cl:
            if c["meta"]["role"] != "agg":
                continue
            o = obs[c["id"]]
            probs = []
            if o["status"] != "ok":
                probs.append("aggregate run failed: " + o.get("err", "")[:200])
            else:
                out = cm.unb64(o["out"]).decode().split("\n")
                got = [l.rsplit(",", 1) for l in out[1:] if l]
                thr = c["meta"]["thr"]
                exp = {m: k / nseq for m, k in counts.items() if k / nseq >= thr}
                gd = {}
                for m, f in got:
                    if m in gd:
                        probs.append("mutation listed twice: " + m)
                    gd[m] = f
                if set(gd) != set(exp):
                    probs.append("aggregate lists %r, recount from the per-sequence output gives %r (threshold %r, n=%d)" % (sorted(gd), sorted(exp), thr, nseq))
                for m, f in gd.items():
                    if m in exp and f != "%.9f" % exp[m]:
                        probs.append("frequency of %s printed %s, expected %.9f" % (m, f, exp[m]))
                ps = [position_of(m) for m, _ in got]
                ps = [p for p in ps if p is not None]
                if "variants" in c["meta"]["kind"]:
                    pass       # aa records sort by their codon's first position, which the text does not show
                elif ps != sorted(ps):
                    probs.append("not ordered by genomic position: %r" % ps)
            if probs:
                c["sample"]["oracle_problems"] = probs[:5]
                bad.append(c)
    return bad


def extra(ctx, obl, cases, obs):
    """the command through the built binary (cmd/*.go): binary = library entry point, and the option handling the command does itself"""
    n = 2 if ctx.tier == "quick" else 12
    _cmd_state["binary_runs"] = cmdlayer.snps_layer(ctx, n) + cmdlayer.threshold_layer(ctx)


_cmd_state = {}


def coverage_extra(ctx):
    return {"binary_runs": _cmd_state.get("binary_runs", 0)}
