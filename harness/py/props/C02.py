"""C02: sam toPairAlign reconstructs each pairwise alignment losslessly."""
import common as cm
import cmdlayer
import gen
import samgen

IMPORTS = ["Base", "Harness", "Cigar", "SamModel", "TopaModel", "Check_C02"]
CHECK_FN = "check_C02"
RULE = ("references and records as in C01, per query 1-3 non-conflicting records (agreeing bases, pairwise distinct "
        "insertion positions), any number and placement of insertions incl. at position 0 and at the reference end; "
        "options --skip-insertions, --omit-reference, --start/--end (each alone or both), --wrap, --threads; output to a "
        "directory (one file per query). The implementation's files are compared with (i) pairs written from the statement "
        "(reference row = reference with '-' exactly at the query's insertions; query row = the toMultiAlign --pad row with "
        "the inserted bases in place; window = columns of base s to base e) and (ii) the Coq model. Non-trivial: the block "
        "has >=2 records and >=1 insertion. Distinct by content.")
ASSUMPTIONS = ["SAM parsing is biogo/hts (trusted)", "query names distinct (one output file per query name)",
               "stdout output is exercised through the binary in C12/C15"]


def generate(ctx):
    rng = ctx.rng
    cs = []
    n = 80 if ctx.tier == "quick" else 1200
    for cid in range(n):
        L = rng.choice([6, 12, 25, 50])
        ref = gen.rand_seq(rng, L)
        if rng.random() < 0.2:
            ref = "".join(c.lower() if rng.random() < 0.3 else c for c in ref)
        recs = []
        nontriv = False
        for qi in range(rng.randint(1, 3)):
            name = rng.choice(["q%d", "hCoV/x%d", "s|%d"]) % qi
            q = samgen.make_query_topa(rng, ref.upper(), name)
            recs += q
            if rng.random() < 0.2:
                recs.append(samgen.noise_record(rng, ref.upper(), name))
            if len(q) >= 2 and any(o == "I" for r in q for o, _ in r["cigar"]):
                nontriv = True
        opts = {"wrap": rng.choice([0, 0, 1, 4, L + 3]), "start": -1, "end": -1, "omit_ref": rng.random() < 0.25,
                "omit_ins": rng.random() < 0.25, "threads": rng.choice([1, 2, 4])}
        equalw = L >= 12 and cid % 6 == 5
        if equalw:
            # several queries whose insertions have the SAME total length at different places, handled one after the other by
            # one worker, cut by a window: whatever is kept from one pair to the next must not depend on the row width alone
            recs, ilen = [], rng.randint(1, 3)
            for qi in range(rng.randint(2, 4)):
                a = rng.randint(1, L - 2)
                cig = [("M", a), ("I", ilen), ("M", L - a)] if rng.random() < 0.85 else [("M", L)]
                recs.append({"name": "e%d" % qi, "flag": 0, "pos": 0, "cigar": cig, "seq": samgen.build_seq(rng, cig, 0, ref.upper())})
            opts.update(threads=1, omit_ins=False)
            nontriv = True
        r = rng.random() if not equalw else 0.4
        if r < 0.15:
            opts["start"] = rng.randint(1, L)
        elif r < 0.3:
            opts["end"] = rng.randint(1, L)
        elif r < 0.45:
            opts["start"] = rng.randint(1, L)
            opts["end"] = rng.randint(opts["start"], L)
        refb = gen.layout(rng, [("theref desc", ref)], rng.choice(["plain", "wrap"]))
        samb = samgen.render_sam("theref", L, recs, trail=rng.random() > 0.12)
        exp = samgen.expected_topa(recs, ref, "theref", opts["wrap"], opts["start"], opts["end"], opts["omit_ref"], opts["omit_ins"])
        files = [f for f, _ in exp]
        expb = "".join("==%s==\n%s" % (f, t) for f, t in exp).encode()
        go = {"id": cid, "op": "topa", "sam": cm.b64(samb), "ref": cm.b64(refb), "files": files, **opts}
        def coq(obs, refb=refb, recs=recs, opts=opts, expb=expb):
            return "(%s, %s, %s, %d%%nat, (%d)%%Z, (%d)%%Z, %s, %s, (Some %s), %s)" % (
                cm.cbytes(refb), cm.cbytes(b"theref"), samgen.coq_records(recs), opts["wrap"], opts["start"], opts["end"],
                cm.cbool(opts["omit_ref"]), cm.cbool(opts["omit_ins"]), cm.cbytes(expb), cm.cgores(obs))
        cs.append({"id": cid, "go": go, "coq": coq, "meta": {"kind": "random", "nontrivial": nontriv},
                   "sample": {"sam": samb.decode(), "reference": refb.decode(), **opts, "expected_by_statement": expb.decode()}})
    return cs


def extra(ctx, obl, cases, obs):
    """the command through the built binary (cmd/*.go): binary = library entry point, and the option handling the command does itself"""
    n = 2 if ctx.tier == "quick" else 12
    _cmd_state["binary_runs"] = cmdlayer.sam_layer(ctx, 'topa', n)


_cmd_state = {}


def coverage_extra(ctx):
    return {"binary_runs": _cmd_state.get("binary_runs", 0)}
