"""C14: GenBank and GFF3 descriptions of the same genes give the same mutations."""
import common as cm
import cmdlayer
import random
import loclayer
import gen
import anno
import vcommon

IMPORTS = ["Base", "Harness", "Check_C14"]
CHECK_FN = "check_C14"
RULE = ("one annotation AST (1-3 named coding features: forward/reverse, 1-3 segments whose lengths need not be multiples "
        "of 3, codon_start 1-3, overlapping or not) is rendered as a GenBank flat file (a..b, join(), complement(), "
        "complement(join()), join(complement(),...)) and as the equivalent GFF3 rows (shared ID, strand, GFF3-spec phase, "
        "##FASTA); both are parsed by the real code and (i) the regions are compared field by field with the AST-level Coq "
        "model, (ii) `variants` is run with each on the same alignment and the two outputs must list the same mutations "
        "for every sequence, (iii) each output is compared byte for byte with the Coq model of the caller. Non-trivial: "
        "a reverse or joined feature, or codon_start > 1. Distinct by case content.")
ASSUMPTIONS = ["the text parsers (parseGenbankFEATURES, featureFromLine, location strings) are modelled at AST level only; "
               "they are exercised by rendering the AST and parsing it with the real code",
               "annotation consistent: /translation is the translation of the feature (generator guarantees it)"]


def coq_ast(genome, feats):
    fs = []
    for f in feats:
        fs.append("(%s, %s, [%s], %d%%nat)" % (cm.cbytes(f.name.encode()), cm.cbool(f.strand == "-"),
                                               ";".join("(%d%%nat, %d%%nat)" % s for s in f.segments), f.codon_start))
    return "%s, [%s]" % (cm.cbytes(genome.encode()), ";".join(fs))


def generate(ctx):
    rng = ctx.rng
    cs = []
    cid = 0
    n = 30 if ctx.tier == "quick" else 500
    for g in range(n):
        L = rng.choice([30, 45, 60, 90])
        genome = gen.rand_seq(rng, L)
        feats = anno.random_features(rng, L, max_feats=3, codon_starts=True)
        genome, feats = anno.patch_stops(rng, genome, feats)
        names = set()
        feats = [f for f in feats if not (f.name in names or names.add(f.name))]
        if not feats:
            continue
        ref_row, rows = anno.make_msa(rng, genome, rng.randint(1, 3))
        msa, recs = vcommon.build_msa(rng, ref_row, rows, refpos="first")
        append = rng.random() < 0.6
        refid = "REF"
        # one group in three: no --reference, the sequence of the annotation itself is the reference (ORIGIN / ##FASTA); the
        # alignment then has no reference row and no insertion columns, and one of its records may carry the very name the
        # annotation gives its sequence (ref in the GFF3, TEST in the LOCUS line): it is a query like any other, in both formats
        wr = random.Random(7 * g + L)
        if wr.random() < 0.34:
            ref_row = genome
            rows = [gen.mutate(wr, genome, p_sub=0.12, p_amb=0.04, p_gap=0.03, p_lower=0.0).replace("?", "N") for _ in range(wr.randint(2, 4))]
            recs = [("q%d" % i, r) for i, r in enumerate(rows)]
            if wr.random() < 0.7:
                k = wr.randrange(len(recs))
                recs[k] = (wr.choice(["ref", "ref", "TEST", "annotation_fasta"]), genome if wr.random() < 0.4 else recs[k][1])
            msa = gen.layout(wr, recs, "plain")
            refid = ""
        nt = any(f.strand == "-" or len(f.segments) > 1 or f.codon_start > 1 for f in feats)
        for suffix in ("gb", "gff"):
            annob = anno.render_genbank(genome, feats, rng) if suffix == "gb" else anno.render_gff(genome, feats, mix=rng)
            c = vcommon.variants_case(cid, msa, refid, annob, suffix, {"kind": suffix + ("" if refid else ":reference-from-annotation"), "nontrivial": nt, "group": g},
                                      append_snps=append,
                                      info={"ref_row": ref_row, "queries": [(nm, r) for nm, r in recs if nm != ("REF" if refid else "annotation_fasta")],
                                            "features": feats, "genbank": True})
            f = c["coq"]
            c["coq"] = (lambda f=f, a=coq_ast(genome, feats): (lambda obs: "(%s, %s)" % (a, f(obs))))()
            cs.append(c)
            cid += 1
    return cs


def post_go(ctx, cases, obs):
    bad = []
    groups = {}
    for c in cases:
        groups.setdefault(c["meta"]["group"], []).append(c)
        probs = vcommon.oracle_rows(c, obs[c["id"]], check_complete=c["go"]["append_snps"])
        if obs[c["id"]]["status"] != "ok":
            probs.append("valid annotation refused: %s %s" % (obs[c["id"]]["status"], obs[c["id"]].get("err", "")[:200]))
        if probs:
            c["sample"]["oracle_problems"] = probs[:5]
            bad.append(c)
    for g, cl in groups.items():
        if len(cl) != 2 or any(obs[c["id"]]["status"] != "ok" for c in cl):
            continue
        a, b = (anno.parse_rows(cm.unb64(obs[c["id"]]["out"]))[1] for c in cl)
        if [n for n, _ in a] != [n for n, _ in b] or any(sorted(x[1]) != sorted(y[1]) for x, y in zip(a, b)):
            c = cl[1]
            c["sample"]["oracle_problems"] = ["GenBank and GFF3 runs list different mutations: gb %r / gff %r" % (a, b)]
            if c not in bad:
                bad.append(c)
    return bad


def extra(ctx, obl, cases, obs):
    """the command through the built binary (cmd/*.go): binary = library entry point, and the option handling the command does itself"""
    n = 2 if ctx.tier == "quick" else 12
    _cmd_state["binary_runs"] = cmdlayer.variants_layer(ctx, n)
    _cmd_state["annotation_text_runs"] = cmdlayer.annotation_text_layer(ctx)
    # GFF3 feature rows and the GenBank FEATURES block, byte level: implementation = model = the fields written
    import gfflayer, gblayer
    cm.coq_make(["theories/Check_Gff.vo", "theories/Check_Genbank.vo"], ctx.log)
    _cmd_state.update(gfflayer.run(ctx, 250 if ctx.tier == "quick" else 4000))
    _cmd_state.update(gblayer.run(ctx, 150 if ctx.tier == "quick" else 2500))
    # the location strings themselves, byte level: implementation = LocationModel.v = the location AST
    cm.coq_make(["theories/Check_Loc.vo"], ctx.log)
    _cmd_state.update(loclayer.run(ctx, 250 if ctx.tier == "quick" else 4000))
    # whole annotation files, byte level: sections / directives / line ends / wrapped locations; implementation = GenbankFile.v, GffFile.v = the parts written
    import annofile
    cm.coq_make(["theories/Check_AnnoFile.vo"], ctx.log)
    _cmd_state.update(annofile.run(ctx, 200 if ctx.tier == "quick" else 3000))
    # ... and from those bytes to the regions the variant callers use: implementation = ConsumerModel.v = what the feature AST denotes
    import regionlayer
    cm.coq_make(["theories/Check_Consumers.vo"], ctx.log)
    _cmd_state.update(regionlayer.run(ctx, 120 if ctx.tier == "quick" else 2000))


_cmd_state = {}


def coverage_extra(ctx):
    return dict(_cmd_state)
