"""C04: variants loses no nucleotide difference and every aa call is a true translation."""
import common as cm
import cmdlayer
import gen
import anno
import vcommon
import samgen
from vcommon import IMPORTS, CHECK_FN

RULE = ("random genomes with 1-3 coding features (forward/reverse, single/joined segments, overlapping, named and - in "
        "GFF - unnamed), rendered as GenBank or GFF3, every feature ending in a stop codon; alignments with substitutions, "
        "IUPAC codes, deletions and insertions relative to the reference; reference first/middle/last in the msa or taken "
        "from the annotation; with and without --append-snps; a fifth of the cases have a polyprotein with its in-frame "
        "peptides as separately named features and queries 25-40% diverged (more than a dozen records per sequence, several "
        "per position). Oracles written from the statement check every per-sequence "
        "row of the implementation: mentioned positions = disjoint positions (with --append-snps), nuc: records name the "
        "symbols, aa: records = the codons whose query translation is unambiguous and differs. The Coq model of the caller "
        "is compared byte for byte; the same pairwise relations are also given to `sam variants` as SAM records (rows must be "
        "equal). Non-trivial: the case has a reverse-strand or joined feature, or an insertion. "
        "Distinct by case content.")
ASSUMPTIONS = ["regions (positions, strand, translation) are taken from the implementation's own parsers (C14 decides them)",
               "annotation consistent: each feature's translation has one letter per codon (generator guarantees it)"]


def generate(ctx):
    rng = ctx.rng
    cs = []
    n = 60 if ctx.tier == "quick" else 1000
    for cid in range(n):
        suffix = rng.choice(["gb", "gff"])
        if cid % 5 == 4:
            # a polyprotein and its in-frame peptides (differently named features sharing every codon) and divergent queries:
            # well over a dozen records per sequence, several of them at one and the same position
            third = rng.choice([10, 12, 14])
            genome = gen.rand_seq(rng, 6 * third + 6)
            feats = [anno.Feature("poly", "+", [(4, 3 + 6 * third)], 1, True), anno.Feature("pepA", "+", [(4, 3 + 3 * third)], 1, True),
                     anno.Feature("pepB", "+", [(4 + 3 * third, 3 + 6 * third)], 1, True)]
            genome, feats = anno.patch_stops(rng, genome, feats)
            if len(feats) != 3:
                continue
            ref_row, _ = anno.make_msa(rng, genome, 1, with_insertions=False)
            rows = [gen.mutate(rng, genome, p_sub=rng.choice([0.25, 0.4]), p_amb=0.02, p_gap=0.0, p_lower=0.0).replace("?", "N") for _ in range(rng.randint(1, 3))]
        else:
            genome, feats, ref_row, rows = vcommon.random_setup(rng, allow_unnamed=(suffix == "gff"), mod3_segments=(cid % 3 != 0),
                                                                codon_starts=(cid % 3 == 0),               # features incomplete at their 5' end: /codon_start 2-3, GFF3 phase 1-2
                                                                rotate=0.3 if suffix == "gb" else 0.0)     # origin-spanning joins: GenBank only
        if not feats:
            continue
        if rng.random() < 0.35:
            rows = vcommon.wobble_codons(rng, genome, feats, ref_row, rows)
        mode = rng.choice(["first", "middle", "last", "anno"])
        if mode == "anno":
            ref_row, rows = anno.make_msa(rng, genome, len(rows), with_insertions=False)
            msa, recs = vcommon.build_msa(rng, ref_row, rows, refpos=None)
            refid = ""
        else:
            msa, recs = vcommon.build_msa(rng, ref_row, rows, refpos=mode)
            refid = "REF"
        gbfeats = [f for f in feats if f.named] if suffix == "gb" else feats
        if not gbfeats:
            continue
        annob = anno.render_genbank(genome, gbfeats, rng) if suffix == "gb" else anno.render_gff(genome, feats, mix=rng)
        append = rng.random() < 0.7
        nontriv = any(f.strand == "-" or len(f.segments) > 1 for f in feats) or "-" in ref_row
        cs.append(vcommon.variants_case(cid, msa, refid, annob, suffix,
                                        {"kind": "%s:%s" % (suffix, mode), "nontrivial": nontriv}, append_snps=append,
                                        threads=rng.choice([1, 2, 4]),
                                        info={"ref_row": ref_row, "queries": [(nm, r) for nm, r in recs if nm != "REF"],
                                              "features": gbfeats if suffix == "gb" else feats, "genbank": suffix == "gb",
                                              "genome": genome, "annob": annob, "suffix": suffix, "mode": mode}))
    # annotations WITHOUT a coding feature (GenBank: source / gene / UTR features only; GFF3: no CDS row, or CDS rows without a
    # Name): every difference is a nuc: record, none is dropped; drawn from a PRNG of its own
    import random
    wr = random.Random(606 + ctx.seed)
    base = len(cs) + 100000
    for k in range(4 if ctx.tier == "quick" else 40):
        suffix = ["gb", "gff"][k % 2]
        genome = gen.rand_seq(wr, wr.choice([30, 45]))
        ref_row, rows = anno.make_msa(wr, genome, wr.randint(1, 3), with_insertions=(k % 4 < 2))
        mode = "first" if k % 4 < 2 else "anno"
        if mode == "anno":
            msa, recs = vcommon.build_msa(wr, ref_row, rows, refpos=None)
            refid = ""
        else:
            msa, recs = vcommon.build_msa(wr, ref_row, rows, refpos="first")
            refid = "REF"
        annob = anno.render_genbank(genome, [], wr) if suffix == "gb" else anno.render_gff(genome, [], mix=wr)
        cs.append(vcommon.variants_case(base + k, msa, refid, annob, suffix, {"kind": "%s:no-coding-feature" % suffix, "nontrivial": True}, append_snps=wr.random() < 0.5,
                                        threads=1,
                                        info={"ref_row": ref_row, "queries": [(nm, r) for nm, r in recs if nm != "REF"], "features": [], "genbank": suffix == "gb",
                                              "genome": genome, "annob": annob, "suffix": suffix, "mode": mode}))
    return cs


def post_go(ctx, cases, obs):
    bad = []
    for c in cases:
        probs = vcommon.oracle_rows(c, obs[c["id"]], check_complete=c["go"]["append_snps"])
        if obs[c["id"]]["status"] != "ok":
            probs.append("valid input refused or crashed: %s %s" % (obs[c["id"]]["status"], obs[c["id"]].get("err", "")[:200]))
        if probs:
            c["sample"]["oracle_problems"] = probs[:5]
            bad.append(c)
    # the statement is about `variants` and `sam variants`: the SAM form of the same pairwise relations, one worker
    def get_pairs(c):
        if c["info"]["mode"] == "anno" or any("?" in q for _, q in c["info"]["queries"]):
            return None
        return [(nm, c["info"]["ref_row"], q) for nm, q in c["info"]["queries"]]
    _state["sam_form_runs"] = vcommon.sam_form_stage(ctx, cm, gen, samgen, anno, cases, obs, bad, get_pairs)
    return bad


_state = {}


def coverage_extra(ctx):
    return {"binary_runs": _cmd_state.get("binary_runs", 0), "sam_form_runs": _state.get("sam_form_runs", 0)}


def extra(ctx, obl, cases, obs):
    """the command through the built binary (cmd/*.go): binary = library entry point, and the option handling the command does itself"""
    n = 2 if ctx.tier == "quick" else 12
    _cmd_state["binary_runs"] = cmdlayer.variants_layer(ctx, n)


_cmd_state = {}
