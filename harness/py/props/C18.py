"""C18: invalid or inconsistent input is refused with a non-zero exit, never silently."""
import os
import shutil
import tempfile
import common as cm
import gen
import anno
import samgen
import udgen
import vcommon

RULE = ("a valid input set for every command (snps, closest, updown list, updown topranking fasta and csv, variants gb/gff, sam "
        "toMultiAlign, sam toPairAlign, sam variants, sam indels) is first run unchanged (must exit 0), then each listed corruption is "
        "applied to each applicable input file at the first, a middle and the last record: unequal row length (longer, shorter, or a header with no sequence at all), non-IUPAC "
        "symbol, empty file, missing file, header-less/empty SAM, reference vs alignment width, query vs target width, two "
        "records in --reference, empty CSV, CSV that is not updown list output, window outside 1..reference length and "
        "start > end, unrecognised annotation suffix, a reference of another length than the annotation or a gff with two ##sequence-region lines (variants and sam variants), a --reference of another length than the SAM header gives (sam toPairAlign, sam variants), no size/dist option, and each invalid topranking file next to a header-only (valid, zero-row) CSV on the other side. Every run is the built binary under a timeout; "
        "the verdict is the exit status: 0 or a timeout is a violation. Non-trivial: every corrupted run. Distinct by (command, "
        "file, corruption, position).")
ASSUMPTIONS = ["exit status 2 (Go panic) counts as a refusal with a non-zero exit; C16 separately demands that the FASTA readers never panic",
               "the model proves the decision to refuse; exit status and promptness are observed on the binary"]
TIMEOUT = 10


def fasta(recs):
    return "".join(">%s\n%s\n" % r for r in recs).encode()


def corrupt_fasta(recs, kind, pos):
    """recs: list of (name, seq).  pos in {0: first, 1: middle, 2: last}."""
    i = [0, len(recs) // 2, len(recs) - 1][pos]
    recs = [list(r) for r in recs]
    if kind == "unequal":
        recs[i][1] = recs[i][1] + "A" if len(recs) > 1 else None
        if recs[i][1] is None:
            return None
    elif kind == "shorter":
        if len(recs) < 2 or len(recs[i][1]) < 2:
            return None
        recs[i][1] = recs[i][1][:-1]
    elif kind == "emptyseq":          # a header with no sequence at all
        if len(recs) < 2:
            return None
        recs[i][1] = ""
    elif kind == "badsym":
        s = recs[i][1]
        recs[i][1] = s[:len(s) // 2] + "J" + s[len(s) // 2 + 1:]
    elif kind == "badsym0":           # ... as the FIRST symbol of the sequence
        recs[i][1] = "J" + recs[i][1][1:]
    elif kind == "badsymZ":           # ... as the LAST
        recs[i][1] = recs[i][1][:-1] + "J"
    return fasta([tuple(r) for r in recs])


def setups(rng):
    """valid inputs for every command: returns dict name -> bytes, and the reference length."""
    L = 30
    genome = gen.rand_seq(rng, L)
    feats = []
    while not feats:
        genome = gen.rand_seq(rng, L)
        feats = anno.random_features(rng, L, max_feats=2, mod3_segments=True)
        genome, feats = anno.patch_stops(rng, genome, feats)
    aln = [("s%d" % i, gen.mutate(rng, genome, p_sub=0.1, p_amb=0.05, p_gap=0.0).replace("?", "N")) for i in range(3)]
    srecs = []
    for qi in range(3):
        srecs += samgen.make_query_topa(rng, genome, "q%d" % qi)
    for r in srecs:
        r["cigar"] = [(o, l) for o, l in r["cigar"] if o not in "NP"] or [("M", 1)]
        r["seq"] = samgen.build_seq(rng, r["cigar"], r["pos"], genome)
    return {"L": L, "genome": genome, "feats": feats, "aln": aln, "srecs": srecs}


def check(ctx):
    res = cm.build_harness(ctx.log)
    cm.regen_tables(ctx.log)
    cm.regen_sites(ctx.log)
    cm.coq_make(["theories/Check_C18.vo"], ctx.log)
    obl = cm.check_obligations(ctx.pid, ctx.log)
    binp = cm.build_binary(ctx.log)
    if not binp:
        raise RuntimeError("gofasta does not build")
    rng = ctx.rng
    tmp = tempfile.mkdtemp(prefix="verif-c18-")
    runs = []          # (description, argv, stdin)
    try:
        S = setups(rng)
        L, genome, aln = S["L"], S["genome"], S["aln"]
        W = lambda n, b: (open(os.path.join(tmp, n), "wb").write(b), os.path.join(tmp, n))[1]
        ref = W("ref.fasta", fasta([("REF", genome)]))
        alnp = W("aln.fasta", fasta(aln))
        msa = W("msa.fasta", fasta([("REF", genome)] + aln))
        gff = W("anno.gff", anno.render_gff(genome, S["feats"]))
        gb = W("anno.gb", anno.render_genbank(genome, S["feats"]))
        samp = W("a.sam", samgen.render_sam("REF", L, S["srecs"]))
        empty = W("empty.txt", b"")
        outdir = os.path.join(tmp, "pairs")
        # CSVs through the real updown list
        cls, rc, out, err = cm.run_binary(binp, ["updown", "list", "-r", ref, "-q", alnp])
        csvp = W("aln.csv", out)
        base = {
            "snps": ["snps", "-r", ref, "-q", alnp],
            "closest": ["closest", "--query", alnp, "--target", alnp],
            "closestn": ["closest", "--query", alnp, "--target", alnp, "-n", "2", "--table"],
            "updown list": ["updown", "list", "-r", ref, "-q", alnp],
            "topranking": ["updown", "topranking", "-r", ref, "-q", alnp, "-t", alnp, "--dist-all", "50"],
            "topranking csv": ["updown", "topranking", "-q", csvp, "-t", csvp, "--size-total", "4"],
            "variants gff": ["variants", "--msa", msa, "-r", "REF", "-a", gff],
            "variants gb": ["variants", "--msa", msa, "-r", "REF", "-a", gb],
            "toma": ["sam", "toMultiAlign", "-s", samp],
            "topa": ["sam", "toPairAlign", "-s", samp, "-r", ref, "-o", outdir],
            "sam variants": ["sam", "variants", "-s", samp, "-r", ref, "-a", gff],
            "sam indels": ["sam", "indels", "-s", samp, "--insertions-out", os.path.join(tmp, "ins.tsv"), "--deletions-out", os.path.join(tmp, "del.tsv")],
        }
        unchanged_bad = []
        for name, argv in base.items():
            cls, rc, out, err = cm.run_binary(binp, argv, timeout=TIMEOUT)
            if cls != "ok":
                unchanged_bad.append((name, cls, err.decode()[-300:]))
        if unchanged_bad:
            raise RuntimeError("valid inputs are refused (generator or flags out of date): %r" % unchanged_bad)

        def sub(argv, old, new):
            return [new if a == old else a for a in argv]
        # corrupted alignment files
        n = 0
        for kind in ("unequal", "shorter", "badsym", "badsym0", "badsymZ", "emptyseq"):
            for pos in (0, 1, 2):
                b = corrupt_fasta(aln, kind, pos)
                if b is None:
                    continue
                p = W("bad_%s_%d.fasta" % (kind, pos), b)
                for name in ("snps", "closest", "closestn", "updown list", "topranking"):
                    for role in ("q", "t"):
                        argv = list(base[name])
                        # replace the first (query) or second (target) occurrence of the alignment
                        idxs = [i for i, a in enumerate(argv) if a == alnp]
                        if role == "t" and len(idxs) < 2:
                            continue
                        argv[idxs[0 if role == "q" else 1]] = p
                        runs.append(("%s: %s alignment, %s at record %d" % (name, "query" if role == "q" else "target", kind, pos), argv, None))
                bm = corrupt_fasta([("REF", genome)] + aln, kind, pos)
                pm = W("badmsa_%s_%d.fasta" % (kind, pos), bm)
                for name in ("variants gff", "variants gb"):
                    runs.append(("%s: msa, %s at record %d" % (name, kind, pos), sub(base[name], msa, pm), None))
        # width mismatches between files
        longer = W("longer.fasta", fasta([(nm, s + "A") for nm, s in aln]))
        for name in ("snps", "updown list"):
            runs.append((name + ": reference and alignment of different widths", sub(base[name], alnp, longer), None))
        runs.append(("closest: query and target of different widths", ["closest", "--query", longer, "--target", alnp], None))
        runs.append(("closest -n: query and target of different widths", ["closest", "--query", alnp, "--target", longer, "-n", "2"], None))
        runs.append(("topranking: target of different width", ["updown", "topranking", "-r", ref, "-q", alnp, "-t", longer, "--dist-all", "50"], None))
        # ... and the other way round: every file NARROWER than its companion
        narrower = W("narrower.fasta", fasta([(nm, s[:-1]) for nm, s in aln]))
        for name in ("snps", "updown list"):
            runs.append((name + ": alignment narrower than the reference", sub(base[name], alnp, narrower), None))
        for extra in ([], ["-n", "2"], ["-n", "2", "--table"], ["-d", "3", "-m", "snp"], ["-n", "1", "-m", "tn93"]):
            runs.append(("closest %s: target narrower than the query" % " ".join(extra), ["closest", "--query", alnp, "--target", narrower] + extra, None))
            runs.append(("closest %s: query narrower than the target" % " ".join(extra), ["closest", "--query", narrower, "--target", alnp] + extra, None))
        runs.append(("topranking: target narrower than the reference", ["updown", "topranking", "-r", ref, "-q", alnp, "-t", narrower, "--dist-all", "50"], None))
        runs.append(("topranking: query narrower than the reference", ["updown", "topranking", "-r", ref, "-q", narrower, "-t", alnp, "--dist-all", "50"], None))
        runs.append(("variants: msa narrower than the annotation", sub(base["variants gff"], msa, W("short.fasta", fasta([("REF", genome[:-3])] + [(nm, s[:-3]) for nm, s in aln]))), None))
        # the annotation and the reference have to be in the same coordinates, for both commands that take an annotation
        shortref = W("shortref.fasta", fasta([("REF", genome[:-3])]))
        ssam = W("short.sam", samgen.render_sam("REF", L - 3, [{"name": "q", "flag": 0, "pos": 0, "cigar": [("M", L - 3)], "seq": genome[:-3]}]))
        for an, ap_ in (("gff", gff), ("gb", gb)):
            runs.append(("sam variants: reference 3 bases shorter than the %s annotation" % an, ["sam", "variants", "-s", ssam, "-r", shortref, "-a", ap_], None))
        longref = W("longref.fasta", fasta([("REF", genome + "ACG")]))
        lsam = W("long.sam", samgen.render_sam("REF", L + 3, [{"name": "q", "flag": 0, "pos": 0, "cigar": [("M", L + 3)], "seq": genome + "ACG"}]))
        lmsa = W("longmsa.fasta", fasta([("REF", genome + "ACG"), ("q", genome + "ACG")]))
        for an, ap_ in (("gff", gff), ("gb", gb)):
            runs.append(("sam variants: reference 3 bases longer than the %s annotation" % an, ["sam", "variants", "-s", lsam, "-r", longref, "-a", ap_], None))
            runs.append(("variants: reference 3 bases longer than the %s annotation" % an, ["variants", "--msa", lmsa, "-r", "REF", "-a", ap_], None))
        # variants with the reference taken from the annotation: every row of the alignment wider / narrower than that sequence
        wide_nr = W("wide_noref.fasta", fasta([(nm, s + "ACG") for nm, s in aln]))
        narrow_nr = W("narrow_noref.fasta", fasta([(nm, s[:-3]) for nm, s in aln]))
        ok_nr = W("ok_noref.fasta", fasta(aln))
        for an, ap_ in (("gff", gff), ("gb", gb)):
            cls_, _, _, err_ = cm.run_binary(binp, ["variants", "--msa", ok_nr, "-a", ap_], timeout=TIMEOUT)
            if cls_ != "ok":
                raise RuntimeError("variants without --reference refuses a valid alignment: %r" % err_.decode()[-200:])
            for extra in ([], ["--aggregate"], ["-t", "3"]):
                runs.append(("variants (reference from the %s annotation) %s: alignment 3 columns wider" % (an, " ".join(extra)), ["variants", "--msa", wide_nr, "-a", ap_] + extra, None))
                runs.append(("variants (reference from the %s annotation) %s: alignment 3 columns narrower" % (an, " ".join(extra)), ["variants", "--msa", narrow_nr, "-a", ap_] + extra, None))
        # ... and a symbol outside the IUPAC alphabet in that sequence (the ##FASTA record / the ORIGIN block), at the first, a middle
        # and the last base, outside and inside a coding feature: the annotation is then the command's reference FASTA
        import re as _re
        gb_t, gff_t = open(gb, "rb").read().decode(), open(gff, "rb").read().decode()
        for where, k in (("first", 0), ("middle", L // 2), ("last", L - 1)):
            bad_genome = genome[:k] + "J" + genome[k + 1:]
            o = gb_t.index("ORIGIN")
            body = gb_t[o:]
            cnt = -1
            def sub1(m):
                nonlocal cnt
                cnt += 1
                return "j" if cnt == k else m.group(0)
            bad_gb = W("badorigin_%s.gb" % where, (gb_t[:o] + "ORIGIN" + _re.sub(r"[acgtn]", sub1, body[6:])).encode())
            bad_gff = W("badfasta_%s.gff" % where, gff_t.replace(genome, bad_genome).encode())
            for an, ap_ in (("gff", bad_gff), ("gb", bad_gb)):
                runs.append(("variants (reference from the %s annotation): a letter outside the IUPAC alphabet at the %s base of the annotation's sequence" % (an, where),
                             ["variants", "--msa", ok_nr, "-a", ap_], None))
                runs.append(("sam variants (reference from the %s annotation): a letter outside the IUPAC alphabet at the %s base of the annotation's sequence" % (an, where),
                             ["sam", "variants", "-s", samp, "-a", ap_], None))
        # the --reference given with a SAM file has to be the sequence the SAM header describes (@SQ LN)
        gff_noreg = W("anno_noregion.gff", anno.render_gff(genome, S["feats"], seqregion=False))
        # ... in COLUMNS: a --reference row with a gap column has as many bases as @SQ LN says and one column more
        for where, k in (("first", 0), ("middle", L // 2), ("last", L)):
            gapref = W("gapref_%s.fasta" % where, fasta([("REF", genome[:k] + "-" + genome[k:])]))
            runs.append(("sam toPairAlign: --reference with a gap column (%s), as many bases as @SQ LN" % where, sub(base["topa"], ref, gapref), None))
            runs.append(("sam variants: --reference with a gap column (%s), as many bases as @SQ LN" % where, sub(base["sam variants"], ref, gapref), None))
            runs.append(("sam variants --aggregate: --reference with a gap column (%s), as many bases as @SQ LN" % where, sub(base["sam variants"], ref, gapref) + ["--aggregate"], None))
        for what, rf in (("3 bases longer", longref), ("3 bases shorter", shortref)):
            runs.append(("sam toPairAlign: --reference %s than the @SQ line says" % what, sub(base["topa"], ref, rf), None))
            runs.append(("sam toPairAlign -o stdout: --reference %s than the @SQ line says" % what, ["sam", "toPairAlign", "-s", samp, "-r", rf, "-o", "stdout"], None))
            runs.append(("sam variants: --reference %s than the @SQ line says (gff without ##sequence-region)" % what, ["sam", "variants", "-s", samp, "-r", rf, "-a", gff_noreg], None))
        tworeg = W("tworegions.gff", open(gff, "rb").read().replace(b"##sequence-region", b"##sequence-region other 1 99\n##sequence-region", 1))
        runs.append(("variants: two ##sequence-region lines in the gff", sub(base["variants gff"], gff, tworeg), None))
        runs.append(("sam variants: two ##sequence-region lines in the gff", sub(base["sam variants"], gff, tworeg), None))
        # two records in --reference
        two = W("tworefs.fasta", fasta([("REF", genome), ("REF2", genome)]))
        for name in ("snps", "updown list", "topranking", "topa", "sam variants"):
            runs.append((name + ": more than one record in --reference", sub(base[name], ref, two), None))
        # empty / missing inputs
        missing = os.path.join(tmp, "does-not-exist")
        for name, argv in base.items():
            files = [a for a in argv if a.startswith(tmp) and a != outdir and not a.endswith(".tsv")]
            for f in dict.fromkeys(files):
                runs.append(("%s: %s empty" % (name, os.path.basename(f)), sub(argv, f, empty), None))
                runs.append(("%s: %s missing" % (name, os.path.basename(f)), sub(argv, f, missing), None))
        # SAM: header-less, header only is fine (no records) but no @SQ is refused
        nohdr = W("nohdr.sam", samgen.render_sam("REF", L, S["srecs"], header=False))
        hdonly = W("nosq.sam", b"@HD\tVN:1.6\n")
        for name in ("toma", "topa", "sam variants", "sam indels"):
            runs.append((name + ": header-less SAM", sub(base[name], samp, nohdr), None))
            runs.append((name + ": SAM header without @SQ", sub(base[name], samp, hdonly), None))
            runs.append((name + ": empty SAM on stdin", [a for a in sub(base[name], samp, "stdin")], b""))
        # CSV that is not updown list output
        notcsv = W("not.csv", b"a,b,c\n1,2,3\n")
        fastacsv = W("fasta.csv", fasta(aln))
        # ... nor is the same table with a sixth column (a header that merely BEGINS with the five names)
        sixth = W("sixth.csv", b"".join(l + (b",lineage" if i == 0 else b",B.1") + b"\n" for i, l in enumerate(open(csvp, "rb").read().split(b"\n")) if l))
        for bad in (notcsv, fastacsv, sixth):
            runs.append(("topranking csv: --query is not updown list output", ["updown", "topranking", "-q", bad, "-t", csvp, "--size-total", "4"], None))
            runs.append(("topranking csv: --target is not updown list output", ["updown", "topranking", "-q", csvp, "-t", bad, "--size-total", "4"], None))
        # a degenerate but valid companion does not excuse the other file: header-only updown list CSV (no rows) as the query
        # or as the target, next to each kind of invalid file on the other side
        hdr = W("header_only.csv", open(csvp, "rb").read().split(b"\n")[0] + b"\n")
        cls0, _, _, err0 = cm.run_binary(binp, ["updown", "topranking", "-q", hdr, "-t", csvp, "--size-total", "4"], timeout=TIMEOUT)
        cls1, _, _, err1 = cm.run_binary(binp, ["updown", "topranking", "-q", csvp, "-t", hdr, "--size-total", "4"], timeout=TIMEOUT)
        badfastas = [os.path.join(tmp, "bad_%s_%d.fasta" % (k, ps)) for k in ("unequal", "shorter", "badsym", "emptyseq") for ps in (0, 2)]
        badfastas = [b for b in badfastas if os.path.isfile(b)]
        for opts in (["--size-total", "4"], ["--dist-all", "2", "--table"]):
            if cls0 == "ok":
                for bad in (notcsv, fastacsv, empty, missing):
                    runs.append(("topranking csv: header-only --query, --target %s" % os.path.basename(bad), ["updown", "topranking", "-q", hdr, "-t", bad] + opts, None))
                for bad in badfastas + [longer, empty]:
                    runs.append(("topranking: header-only CSV --query, FASTA --target %s" % os.path.basename(bad), ["updown", "topranking", "-r", ref, "-q", hdr, "-t", bad] + opts, None))
            if cls1 == "ok":
                for bad in (notcsv, fastacsv, empty, missing):
                    runs.append(("topranking csv: header-only --target, --query %s" % os.path.basename(bad), ["updown", "topranking", "-q", bad, "-t", hdr] + opts, None))
                for bad in badfastas + [longer, empty]:
                    runs.append(("topranking: header-only CSV --target, FASTA --query %s" % os.path.basename(bad), ["updown", "topranking", "-r", ref, "-q", bad, "-t", hdr] + opts, None))
        # windows
        for name in ("toma", "topa"):
            for (s, e) in ((0, 5), (L + 1, L + 2), (5, L + 1), (7, 3), (-3, 5)):
                runs.append(("%s: window %d..%d on a %d-base reference" % (name, s, e, L), base[name] + ["--start", str(s), "--end", str(e)], None))
            # one bad coordinate on its own, and together with the options that change how the window is applied
            extras = [[], ["--pad"], ["--wrap", "7"]] if name == "toma" else [[], ["--wrap", "7"], ["--skip-insertions"]]
            for x in extras:
                for s in (0, L + 1, -3):
                    runs.append(("%s: --start %d alone %s on a %d-base reference" % (name, s, " ".join(x), L), base[name] + ["--start", str(s)] + x, None))
                    runs.append(("%s: --start %d --end %d %s on a %d-base reference" % (name, s, L, " ".join(x), L), base[name] + ["--start", str(s), "--end", str(L)] + x, None))
                for e in (0, L + 1, -2):
                    runs.append(("%s: --end %d alone %s on a %d-base reference" % (name, e, " ".join(x), L), base[name] + ["--end", str(e)] + x, None))
                    runs.append(("%s: --start 1 --end %d %s on a %d-base reference" % (name, e, " ".join(x), L), base[name] + ["--start", "1", "--end", str(e)] + x, None))
        # annotation suffix, topranking without options
        odd = W("anno.txt", open(gff, "rb").read())
        runs.append(("variants: unrecognised annotation suffix", sub(base["variants gff"], gff, odd), None))
        runs.append(("sam variants: unrecognised annotation suffix", sub(base["sam variants"], gff, odd), None))
        runs.append(("topranking: no size/dist option", ["updown", "topranking", "-r", ref, "-q", alnp, "-t", alnp], None))
        # ---- run them
        classes = {}
        bad = []
        samples = []
        # every refused run once more with the output sent to a file through the command's own option: the error has to
        # survive the cmd layer's deferred close of that file
        outfile = os.path.join(tmp, "out.txt")
        more = []
        for desc, argv, stdin in runs:
            if "-o" in argv or "--outfile" in argv or argv[:2] == ["sam", "toPairAlign"] or argv[0] == "updown" and argv[1] == "topranking" and "-o" in argv:
                continue
            opt = "--fasta-out" if argv[:2] == ["sam", "toMultiAlign"] else "-o"
            more.append((desc + " [output to a file via %s]" % opt, argv + [opt, outfile], stdin))
        runs = runs + more
        for desc, argv, stdin in runs:
            cls, rc, out, err = cm.run_binary(binp, argv, stdin=stdin, timeout=TIMEOUT)
            classes[cls] = classes.get(cls, 0) + 1
            if len(samples) < 3:
                samples.append({"what": desc, "argv": [os.path.basename(a) if a.startswith(tmp) else a for a in argv], "class": cls, "exit": rc})
            if cls in ("ok", "hang"):
                files = {}
                for a in argv:
                    if a.startswith(tmp) and os.path.isfile(a):
                        files[os.path.basename(a)] = open(a, "rb").read().decode("latin1")[:4000]
                bad.append({"what": "%s: %s" % (desc, "exit status 0" if cls == "ok" else "no exit within %d s" % TIMEOUT),
                            "argv": [os.path.basename(a) if a.startswith(tmp) else a for a in argv], "files": files,
                            "stdout": out.decode("latin1")[:500], "stderr": err.decode("latin1")[-500:]})
        for b in bad[:8]:
            cm.violation(ctx, "failing-input", b)
        if not obl["ok"] and not bad:
            cm.violation(ctx, "proof-obligation", {"what": "an obligation of Properties_C18.v no longer checks; every corrupted run of the binary was still refused",
                                                   "failed": obl["failed"], "coq_log": obl["log"][-2000:]}, no_failing_input=True)
        cov = {"evaluations": len(runs) + len(base), "distinct_nontrivial": len({(d, tuple(a)) for d, a, _ in runs}), "rule": RULE, "samples": samples,
               "outcome_classes": classes, "commands": sorted(base), "accepted_or_hung": len(bad)}
        cm.write_evidence(ctx, obl, cov, ASSUMPTIONS)
    finally:
        shutil.rmtree(tmp, ignore_errors=True)
