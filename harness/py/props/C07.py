"""C07: raw, snp and tn93 distances equal their definitions for every pair."""
import os
import re
import subprocess
import common as cm
import gen
import vcommon

IMPORTS = ["Base", "Harness", "Check_C07"]
CHECK_FN = "check_C07"
MEAS = {"raw": 0, "snp": 1, "tn93": 2}
RULE = ("(a) the complete 32x32 symbol-pair grid laid out as query/target alignments (each pair as a column, embedded "
        "among identical columns), (b) random pairs with controlled transition/transversion/ambiguity mix; every case is "
        "run as `closest -n #targets+1 --table` (all distances printed, compared byte for byte with the model) and the "
        "float64 values returned by rawDistance/snpDistance/tn93Distance (verif export) are compared bit for bit with the "
        "spec distances computed from the raw symbols; (c) tn93: for pairs whose eq.-7 logarithms are defined, a "
        "kernel-checked interval enclosure |tn93_R(counts) - go_value| <= 1e-12 per pair. Non-trivial: the pair has an "
        "ambiguity code or gap. Distinct by case content.")
ASSUMPTIONS = ["IEEE-754 float64 division in Go equals SpecFloat.SFdiv (definitional spec proved equivalent to IEEE-754 by Flocq)",
               "tn93: math.Log and the float evaluation order are not modelled; each sampled pair is closed by a certified "
               "interval enclosure (coq-interval), which is per-case evidence, not a universally quantified theorem"]
_state = {}


def coq_parts(p):
    return "(%d, %s%%Z, (%d)%%Z)" % (p[0], p[1], p[2])


def make_case(cid, measure, qrecs, trecs, rng, meta, plain=True):
    # random cases: random physical layout (wrapped lines, CRLF, blank lines) - the per-record A/C/G/T tallies that
    # feed tn93 are accumulated line by line in the reader
    q = gen.layout(rng, qrecs, "plain") if plain else gen.layout(rng, qrecs)
    t = gen.layout(rng, trecs, "plain") if plain else gen.layout(rng, trecs)
    K = len(trecs) + 1
    go = {"id": cid, "op": "closest", "query": cm.b64(q), "target": cm.b64(t), "measure": measure, "n": K,
          "table": True, "threads": 1, "matrix": True}
    def coq(obs):
        mat = (obs.get("extra") or {}).get("matrix") or []
        parts = "[" + ";".join("[" + ";".join(coq_parts(p) for p in row) + "]" for row in mat) + "]"
        return "(%d, %s, %s, %s, %d%%nat, %s)" % (MEAS[measure], parts, cm.cbytes(q), cm.cbytes(t), K, cm.cgores(obs))
    return {"id": cid, "go": go, "coq": coq, "meta": meta, "q": q, "t": t, "qrecs": qrecs, "trecs": trecs, "measure": measure,
            "sample": {"measure": measure, "query": q.decode(), "target": t.decode()}}


def generate(ctx):
    rng = ctx.rng
    cs = []
    cid = 0
    syms = gen.SYMS32
    # (a) symbol-pair grid: query = ctx + all symbols, targets = ctx + rotation k
    for measure in ("raw", "snp", "tn93"):
        pad = "ACGTTGCA"
        qrecs = [("q", pad + syms + pad)]
        trecs = [("rot%d" % k, pad + syms[k:] + syms[:k] + pad) for k in range(len(syms))]
        cs.append(make_case(cid, measure, qrecs, trecs, rng, {"kind": "grid:" + measure, "nontrivial": True}))
        cid += 1
    # (a') one long, AT-rich pair: more than 65,535 copies of one base in the target (a per-record tally must not wrap), a
    # few hundred transitions and transversions so that the base frequencies matter in eq. 7; drawn from a PRNG of its own
    import random
    lr = random.Random(77 + ctx.seed)
    long_ref = ("A" * 95 + "CGTAC") * 700
    def long_mut():
        s = list(long_ref)
        for i in lr.sample(range(len(s)), 900):
            s[i] = lr.choice([c for c in "ACGT" if c != s[i]])
        return "".join(s)
    for measure in (("tn93",) if ctx.tier == "quick" else ("tn93", "raw", "snp")):
        cs.append(make_case(cid, measure, [("qlong", long_mut())], [("tlong", long_mut())], rng, {"kind": "long:" + measure, "nontrivial": True}))
        cid += 1
    n = 40 if ctx.tier == "quick" else 600
    for _ in range(n):
        measure = rng.choice(["raw", "snp", "tn93"])
        w = rng.choice([3, 10, 40, 120])
        ref = gen.rand_seq(rng, w)
        style = rng.random()
        if style < 0.4:      # clean ACGT with substitutions only (tn93 mostly defined)
            mk = lambda: gen.mutate(rng, ref, p_sub=rng.choice([0.02, 0.1, 0.3]), p_amb=0, p_gap=0, p_lower=0.05)
        else:
            mk = lambda: gen.mutate(rng, ref, p_sub=0.1, p_amb=rng.choice([0.02, 0.2]), p_gap=0.05, p_lower=0.1)
        qrecs = [("q%d" % i, mk()) for i in range(rng.randint(1, 3))]
        trecs = [("t%d" % i, mk()) for i in range(rng.randint(1, 5))]
        if rng.random() < 0.1:
            trecs.append(("same", qrecs[0][1]))
        amb = any(c.upper() not in "ACGT" for _, s in qrecs + trecs for c in s)
        cs.append(make_case(cid, measure, qrecs, trecs, rng, {"kind": "random:" + measure, "nontrivial": amb}, plain=rng.random() < 0.4))
        cid += 1
    return cs


def post_go(ctx, cases, obs):
    """the distance plain `closest` prints (its own writer) is, text for text, the one `closest -n --table` prints for that pair"""
    stage = [{"id": i, "op": "closest", "query": c["go"]["query"], "target": c["go"]["target"], "measure": c["measure"], "n": 0,
              "table": False, "threads": 1} for i, c in enumerate(cases) if obs[c["id"]]["status"] == "ok"]
    idx = [c for c in cases if obs[c["id"]]["status"] == "ok"]
    res = cm.go_run(stage, ctx.log) if stage else {}
    bad = []
    for i, c in enumerate(idx):
        table = {}
        for line in cm.unb64(obs[c["id"]]["out"]).decode("latin1").split("\n")[1:]:
            f = line.rsplit(",", 1)
            if len(f) == 2:
                table[f[0]] = f[1]                     # "query,target" -> distance text
        o = res[i]
        if o["status"] != "ok":
            continue
        probs = []
        for line in cm.unb64(o["out"]).decode("latin1").split("\n")[1:]:
            if not line:
                continue
            for key, dist in table.items():
                if line.startswith(key + ","):
                    got = line[len(key) + 1:].split(",")[0]
                    if got != dist:
                        probs.append("plain closest prints %s for the pair %s, closest --table prints %s" % (got, key, dist))
        if probs:
            c["sample"]["oracle_problems"] = probs[:3]
            bad.append(c)
    return bad


def py_tn93_defined(q, t):
    """Prefilter only: is eq. (7) comfortably defined for this pair?  (selects which pairs get certified)"""
    q, t = q.upper(), t.upper()
    cnt = {b: t.count(b) for b in "ACGT"}
    L = sum(cnt.values())
    if L == 0 or min(cnt.values()) == 0:
        return False
    p1 = p2 = d = l = 0
    for a, b in zip(q, t):
        if a in "ACGT" and b in "ACGT":
            l += 1
            if a != b:
                d += 1
                if {a, b} == {"A", "G"}:
                    p1 += 1
                elif {a, b} == {"C", "T"}:
                    p2 += 1
    if l == 0:
        return False
    gA, gC, gG, gT = (cnt[b] / L for b in "ACGT")
    gR, gY = gA + gG, gC + gT
    P1, P2, Q = p1 / l, p2 / l, (d - p1 - p2) / l
    w1 = 1 - gR / (2 * gA * gG) * P1 - Q / (2 * gR)
    w2 = 1 - gY / (2 * gT * gC) * P2 - Q / (2 * gY)
    w3 = 1 - Q / (2 * gR * gY)
    return min(w1, w2, w3) > 0.05


def extra(ctx, obl, cases, obs):
    """tn93: certified interval enclosure per sampled pair."""
    _state["binary_runs"] = vcommon.closest_cmd_layer(ctx, cm, gen, n_inputs=2 if ctx.tier == "quick" else 10)
    rng = ctx.rng
    pairs = []
    for c in cases:
        if c["measure"] != "tn93":
            continue
        mat = (obs[c["id"]].get("extra") or {}).get("matrix")
        if not mat:
            continue
        for i, (qn, qs) in enumerate(c["qrecs"]):
            for j, (tn, ts) in enumerate(c["trecs"]):
                if py_tn93_defined(qs, ts):
                    pairs.append((c, i, j, mat[i][j]))
    rng.shuffle(pairs)
    limit = 30 if ctx.tier == "quick" else 400
    pairs = [p for p in pairs if p[0]["meta"]["kind"].startswith("long:")] + [p for p in pairs if not p[0]["meta"]["kind"].startswith("long:")][:limit]
    _state["tn93_pairs"] = len(pairs)
    _state["tn93_ok"] = 0
    if not pairs:
        return
    wd = os.path.join(cm.WORK, ctx.pid)
    os.makedirs(wd, exist_ok=True)
    path = os.path.join(wd, "tn93cert.v")
    with open(path, "w") as f:
        f.write("From Coq Require Import Reals ZArith List.\nFrom Interval Require Import Tactic.\n"
                "From GF Require Import Base Check_C07 TN93Spec.\nImport ListNotations.\n")
        f.write("Ltac tn93_check tup v tag :=\n  match tup with (?p1, ?p2, ?d, ?l, (?a, ?c, ?g, ?t)) =>\n"
                "    tryif (assert (Rabs (tn93_R p1 p2 d l a c g t - v) <= 1/1000000000000)%R by (unfold tn93_R; interval with (i_prec 100)))\n"
                "    then idtac \"TN93OK\" tag else idtac \"TN93BAD\" tag tup end.\n")
        byc = {}
        for k, (c, i, j, parts) in enumerate(pairs):
            byc.setdefault(c["id"], (c, []))[1].append((k, i, j, parts))
        for cidx, (c, lst) in byc.items():
            f.write("Definition inp_%d := Eval vm_compute in tn93_inputs %s %s.\n" % (cidx, cm.cbytes(c["q"]), cm.cbytes(c["t"])))
            f.write("Goal True.\n")
            for k, i, j, parts in lst:
                kind, m, e = parts
                if kind not in (0, 1):
                    f.write("  idtac \"TN93BAD\" %d \"implementation returned a non-finite or negative value\".\n" % k)
                    continue
                v = "(IZR %s * / IZR %d)%%R" % (m, 2 ** (-e)) if e < 0 else "(IZR %s * IZR %d)%%R" % (m, 2 ** e)
                f.write("  let tup := eval vm_compute in (nth %d (nth %d inp_%d []) (0,0,0,0,(0,0,0,0))%%Z) in tn93_check tup %s %d.\n"
                        % (j, i, cidx, v, k))
            f.write("  exact I.\nQed.\n")
    okm, outm = cm.coq_make(["theories/TN93Spec.vo"], ctx.log)
    rc, out = cm.coqc_file(path, timeout=3000)
    ok = set(int(x) for x in re.findall(r"TN93OK (\d+)", out))
    bad = re.findall(r"TN93BAD (\d+)(.*)", out)
    _state["tn93_ok"] = len(ok)
    if rc != 0:
        cm.violation(ctx, "tn93-certificate", {"what": "the tn93 certificate file did not compile", "log": out[-2000:]},
                     no_failing_input=True)
        return
    for k, rest in bad[:5]:
        c, i, j, parts = pairs[int(k)]
        cm.violation(ctx, "failing-input", {
            "what": "tn93: |tn93_R(model counts) - value returned by tn93Distance| <= 1e-12 could not be certified",
            "query": c["qrecs"][i][1], "target": c["trecs"][j][1], "go_value_parts(kind,mantissa,exp2)": parts,
            "model_counts(p1,p2,d,l,(A,C,G,T))": rest.strip(), "case": c["go"]})
    missing = set(range(len(pairs))) - ok - set(int(k) for k, _ in bad)
    if missing:
        cm.violation(ctx, "tn93-certificate", {"what": "certificate run gave no verdict for pairs %s" % sorted(missing)[:10],
                                               "log": out[-1500:]}, no_failing_input=True)


def coverage_extra(ctx):
    return {"tn93_pairs_certified": _state.get("tn93_ok", 0), "tn93_pairs_attempted": _state.get("tn93_pairs", 0),
            "binary_runs": _state.get("binary_runs", 0)}
