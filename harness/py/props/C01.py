"""C01: sam toMultiAlign projects every query onto reference coordinates exactly."""
import common as cm
import cmdlayer
import gen
import samgen

IMPORTS = ["Base", "Harness", "Cigar", "SamModel", "Check_C01"]
CHECK_FN = "check_C01"
RULE = ("random references; per query 1-3 primary/supplementary records at random POS with random CIGARs over all nine "
        "operators (leading/trailing D and N, adjacent I/D, H/S clips, P), aligned bases drawn from one per-query sequence "
        "so overlaps agree, or deliberately conflicting; a fifth of the queries are 3-5 record 'sandwiches' (two records "
        "disagreeing on a stretch with records that delete/skip/miss it before, between and after them in file order); unmapped (0x4) and secondary (0x100) records interleaved; "
        "options pad x window x wrap x threads. The implementation's bytes are compared with (i) an oracle written from "
        "the statement (position-wise projection, base > deletion > nothing, conflict -> N, flank '-' / internal 'N') and "
        "(ii) the Coq model. Non-trivial: a block has >=2 records or a CIGAR with >=3 operator kinds. Distinct by content.")
ASSUMPTIONS = ["SAM text parsing is biogo/hts (trusted); the model starts from the parsed records",
               "records of one query are contiguous (that is how the code and the aligner define a query block)",
               "SEQ over upper-case IUPAC letters (biogo stores sequences as 4-bit codes)"]


def make_case(cid, ref, recs, opts, meta, with_oracle=True):
    samb = samgen.render_sam("ref", len(ref), recs, trail=opts.get("trail", True))
    # how the bytes reach the command is no part of the SAM file: one case in four is read through a reader that delivers its last
    # bytes together with io.EOF (compress/gzip, network streams), one byte at a time, or in half-filled buffers
    go = {"id": cid, "op": "toma", "sam": cm.b64(samb), "wrap": opts["wrap"], "start": opts["start"], "end": opts["end"],
          "pad": opts["pad"], "threads": opts["threads"], "reader": ["", "", "", "", "dataerr", "dataerr", "onebyte", "half"][cid % 8]}
    exp = samgen.expected_toma(recs, len(ref), opts["pad"], opts["start"], opts["end"], opts["wrap"]) if with_oracle else None
    def coq(obs):
        return "(%d%%nat, %s, %d%%nat, (%d)%%Z, (%d)%%Z, %s, %s, %s)" % (
            len(ref), samgen.coq_records(recs), opts["wrap"], opts["start"], opts["end"], cm.cbool(opts["pad"]),
            ("(Some %s)" % cm.cbytes(exp)) if exp is not None else "None", cm.cgores(obs))
    return {"id": cid, "go": go, "coq": coq, "meta": meta,
            "sample": {"sam": samb.decode(), **opts, "expected_by_statement": exp.decode() if exp is not None else None}}


def random_opts(rng, n):
    o = {"pad": rng.random() < 0.4, "wrap": rng.choice([0, 0, 1, 3, 7, n, n + 5]), "start": -1, "end": -1,
         "threads": rng.choice([1, 2, 4, 8]), "trail": rng.random() > 0.12}      # trail False: no newline after the last record
    r = rng.random()
    if r < 0.2:
        o["start"] = rng.randint(1, n)
    elif r < 0.4:
        o["end"] = rng.randint(1, n)
    elif r < 0.6:
        o["start"] = rng.randint(1, n)
        o["end"] = rng.randint(o["start"], n)
    return o


def generate(ctx):
    rng = ctx.rng
    cs = []
    n = 90 if ctx.tier == "quick" else 1500
    for cid in range(n):
        L = rng.choice([6, 12, 25, 60])
        ref = gen.rand_seq(rng, L)
        recs = []
        nontriv = False
        for qi in range(rng.randint(1, 4)):
            if rng.random() < 0.3:
                recs.append(samgen.noise_record(rng, ref, "noise%d" % qi if rng.random() < 0.5 else "q%d" % qi))
            if rng.random() < 0.2:
                q = samgen.make_query_sandwich(rng, ref, "q%d" % qi)
            else:
                q = samgen.make_query(rng, ref, "q%d" % qi, conflict=rng.random() < 0.3)
            for k, r in enumerate(q):
                recs.append(r)
                if rng.random() < 0.15:          # noise inside a block, under the block's own name or another
                    recs.append(samgen.noise_record(rng, ref, "q%d" % qi))
            if len(q) >= 2 or any(len({o for o, _ in r["cigar"]}) >= 3 for r in q):
                nontriv = True
        cs.append(make_case(cid, ref, recs, random_opts(rng, L), {"kind": "random", "nontrivial": nontriv}))
    return cs


def extra(ctx, obl, cases, obs):
    """the command through the built binary (cmd/*.go): binary = library entry point, and the option handling the command does itself"""
    n = 2 if ctx.tier == "quick" else 12
    _cmd_state["binary_runs"] = cmdlayer.sam_layer(ctx, 'toma', n)


_cmd_state = {}


def coverage_extra(ctx):
    return {"binary_runs": _cmd_state.get("binary_runs", 0)}
