"""C11: sam variants and variants agree on the same alignment."""
import random
import common as cm
import cmdlayer
import gen
import anno
import samgen
import vcommon

IMPORTS = ["Base", "Harness", "Cigar", "SamModel", "Check_C11"]
CHECK_FN = "check_C11"
RULE = ("one generated SAM (1-3 queries, 1-3 non-conflicting records each, insertions/deletions/clips) + reference + "
        "annotation (GenBank or GFF3; reference from file or from the annotation) is run through `sam variants`; then, with "
        "the real commands, (a) `sam toPairAlign` writes each query's pair, which is fed to `variants --msa` with the "
        "reference row as --reference, and (b) for insertion-free queries the `sam toMultiAlign --pad` row is placed in an "
        "alignment with the reference and fed to `variants`; the mutation lists must be identical to those of `sam "
        "variants`; --append-snps and windows vary. The Coq model of `sam variants` is compared byte for byte. "
        "Non-trivial: the query has an insertion or >=2 records. Distinct by content.")
ASSUMPTIONS = ["regions are taken from the implementation's own parsers (C14)", "SAM parsing is biogo/hts (trusted)"]


def generate(ctx):
    rng = ctx.rng
    cs = []
    n = 40 if ctx.tier == "quick" else 600
    for cid in range(n):
        L = rng.choice([30, 45, 60])
        genome = gen.rand_seq(rng, L)
        feats = anno.random_features(rng, L, max_feats=2, mod3_segments=True)
        genome, feats = anno.patch_stops(rng, genome, feats)
        if not feats:
            continue
        suffix = rng.choice(["gb", "gff"])
        annob = anno.render_genbank(genome, feats, rng) if suffix == "gb" else anno.render_gff(genome, feats, mix=rng)
        recs = []
        nontriv = False
        equalw = rng.random() < 0.35      # several single-record queries whose insertions have the same total length at different places
        ilen = rng.randint(1, 4)
        longshort = (not equalw) and rng.random() < 0.2
        if longshort:
            # pairs of DEcreasing width handled one after the other by one worker: the first carries an insertion (and sometimes
            # a deletion) within the last reference bases, the following ones are narrower
            k = rng.randint(1, 3)
            tail = rng.randint(1, 3)
            cigs = [[("M", L - tail), ("I", k), ("M", tail)], [("M", L - tail - 2), ("D", 1), ("M", 1), ("I", k), ("M", tail)],
                    [("M", L - 1), ("I", k), ("M", 1)]]
            recs.append({"name": "long0", "flag": 0, "pos": 0, "cigar": rng.choice(cigs), "seq": ""})
            for qi in range(rng.randint(1, 3)):
                recs.append({"name": "short%d" % qi, "flag": 0, "pos": 0, "cigar": [("M", L)] if rng.random() < 0.7 else [("M", 3), ("I", 1), ("M", L - 3)], "seq": ""})
            for r in recs:
                r["seq"] = samgen.build_seq(rng, r["cigar"], 0, genome)
            nontriv = True
        for qi in range(0 if longshort else rng.randint(2, 4) if equalw else rng.randint(1, 3)):
            if equalw:
                a = rng.randint(1, L - 2) if rng.random() < 0.85 else 0     # a = 0: insertion before the first reference base (ins:0:n)
                cig = ([("M", a)] if a else []) + [("I", ilen), ("M", L - a)] if rng.random() < 0.8 else [("M", L)]
                q = [{"name": "q%d" % qi, "flag": 0, "pos": 0, "cigar": cig, "seq": ""}]
            else:
                q = samgen.make_query_topa(rng, genome, "q%d" % qi)
                if rng.random() < 0.2:        # first record starts at POS 1 with an insertion (after any clips)
                    r0 = q[0]
                    k = 0
                    while k < len(r0["cigar"]) and r0["cigar"][k][0] in "HS":
                        k += 1
                    if k < len(r0["cigar"]) and r0["cigar"][k][0] != "I":
                        r0["cigar"] = r0["cigar"][:k] + [("I", rng.randint(1, 3))] + r0["cigar"][k:]
                    r0["pos"] = 0
                    span = samgen.ref_span(r0["cigar"])
                    if span > L:
                        r0["cigar"] = r0["cigar"][:k + 1] + [("M", L)]
            # sam variants is specified on ordinary aligner output: keep N (skipped region) and P out of the CIGARs here
            for r in q:
                r["cigar"] = [(o, l) for o, l in r["cigar"] if o not in "NP"] or [("M", 1)]
                r["seq"] = samgen.build_seq(rng, r["cigar"], r["pos"], genome)
            if not samgen.nonconflicting(q):
                q = q[:1]
            recs += q
            if len(q) >= 2 or any(o == "I" for r in q for o, _ in r["cigar"]):
                nontriv = True
        # a query whose ONLY difference sits on the first or the last coordinate of a coding feature (or of the genome)
        edge = []
        if rng.random() < 0.5:
            for k in range(rng.randint(1, 2)):
                f = rng.choice(feats)
                p = rng.choice([min(f.positions()), max(f.positions()), max(f.positions()), 1, L])
                t = list(genome)
                t[p - 1] = rng.choice([c for c in "ACGT" if c != t[p - 1]])
                edge.append({"name": "edge%d" % k, "flag": 0, "pos": 0, "cigar": [("M", L)], "seq": "".join(t), "exact": True})
        if rng.random() < 0.35:
            # a query identical to the reference over its whole length, anywhere but first among the queries
            edge.insert(rng.randint(0, len(edge)), {"name": "same%d" % cid, "flag": 0, "pos": 0, "cigar": [("M", L)], "seq": genome, "exact": True})
        # queries differ from the reference
        for r in recs:
            s = list(r["seq"])
            for i in range(len(s)):
                if rng.random() < 0.08:
                    s[i] = rng.choice("ACGTN")
            r["seq"] = "".join(s)
        recs += edge
        # overlapping records of one query must still agree: rebuild from a per-query truth is skipped; drop conflicts
        from_file = rng.random() < 0.6
        if from_file and edge and rng.random() < 0.3:
            # the reference strain itself among the aligned genomes (QNAME = the ID of the -r record): no row for it, in either
            # command.  (With the reference taken from the annotation there is no record of that name to confuse it with, and
            # `variants`, which finds its reference by name, cannot be given the same alignment: not generated.)
            edge[0]["name"] = "REF"
        # -r given as a file whose sequence is NOT the one embedded in the annotation (a lineage / masked reference with
        # the same coordinates): the file is the reference for both commands
        genome_anno = genome
        if from_file and rng.random() < 0.5:
            g2 = list(genome)
            for _ in range(rng.randint(1, 3)):
                i = rng.randrange(L)
                g2[i] = rng.choice([c for c in "ACGT" if c != g2[i]])
            genome = "".join(g2)
        # the -r record need not carry the name the SAM header gives the reference (@SQ SN:REF): a query whose QNAME is that
        # SN name is then a query like any other, with a row in both commands (drawn from a PRNG of its own)
        fid = "REF"
        wr = random.Random(31 * cid + 7)
        if from_file and edge and wr.random() < 0.3:
            fid = "refseq1"
            edge[0]["name"] = "REF"
        refb = gen.layout(rng, [(fid, genome)], "plain")
        samb = samgen.render_sam("REF", L, recs, trail=rng.random() > 0.12)
        append = rng.random() < 0.6
        s, e = (-1, -1)
        r = rng.random()
        if r < 0.2:
            s = rng.randint(1, L // 2)
            e = rng.randint(L // 2, L)
        elif r < 0.35:
            s = rng.randint(1, L // 2)          # --start alone
        elif r < 0.5:
            e = rng.randint(L // 2, L)          # --end alone
        # a window bound exactly ON a difference: on the position of an edge query's only difference, and (wr2) on a non-coding
        # position at which a query written for the purpose differs - the bounds are inclusive for every kind of record
        go_extra_hot = None
        wr2 = random.Random(53 * cid + 11)
        coding = {p for f in feats for p in f.positions()}
        noncoding = [p for p in range(1, L + 1) if p not in coding]
        if noncoding and wr2.random() < 0.4:
            P = wr2.choice(noncoding)
            t = list(genome)
            t[P - 1] = wr2.choice([c for c in "ACGT" if c != t[P - 1]])
            extra_rec = {"name": "nc%d" % cid, "flag": 0, "pos": 0, "cigar": [("M", L)], "seq": "".join(t), "exact": True}
            recs.append(extra_rec)
            samb = samgen.render_sam("REF", L, recs, trail=True)
            s, e = wr2.choice([(-1, P), (P, -1), (P, P), (max(1, P - 3), P), (P, min(L, P + 3))])
        go = {"id": cid, "op": "samvariants", "sam": cm.b64(samb), "ref": cm.b64(refb if from_file else b""), "anno": cm.b64(annob),
              "suffix": suffix, "ref_from_file": from_file, "start": s, "end": e, "append_snps": append, "aggregate": False,
              "threads": 1 if (equalw or longshort) else rng.choice([1, 2, 4])}
        def coq(obs, recs=recs, s=s, e=e, append=append):
            ex = obs.get("extra") or {}
            return "(%s, %s, %s, %s, (false, %s), ((%d)%%Z, (%d)%%Z), (0, 0%%Z, 0%%Z), %s)" % (
                cm.cbytes(cm.unb64(ex.get("ref", ""))), cm.cbytes((ex.get("refid") or "").encode()),
                vcommon.coq_regions(ex.get("regions") or []), samgen.coq_records(recs), cm.cbool(append), s, e, cm.cgores(obs))
        cs.append({"id": cid, "go": go, "coq": coq, "meta": {"kind": "%s:%s" % (suffix, "file" if from_file else "anno"), "nontrivial": nontriv},
                   "sample": {"sam": samb.decode(), "reference": genome, "suffix": suffix, "annotation": annob.decode(), "start": s, "end": e,
                              "append_snps": append, "ref_from_file": from_file},
                   "info": {"recs": recs, "genome": genome, "annob": annob, "suffix": suffix, "samb": samb, "refb": refb, "refid": fid}})
    return cs


def post_go(ctx, cases, obs):
    """Second stage: the real toPairAlign / toMultiAlign outputs fed to the real `variants`."""
    bad = []
    stage = []
    nid = 0
    plan = []
    for c in cases:
        o = obs[c["id"]]
        if o["status"] != "ok":
            c["sample"]["oracle_problems"] = ["sam variants refused a valid input: %s %s" % (o["status"], o.get("err", "")[:200])]
            bad.append(c)
            continue
        info = c["info"]
        blocks = samgen.blocks_of(info["recs"])
        names = [b[0]["name"] for b in blocks]
        files = [n.replace("/", "_") + ".fasta" for n in names]
        stage.append({"id": nid, "op": "topa", "sam": cm.b64(info["samb"]), "ref": cm.b64(info["refb"]), "files": files, "threads": 2})
        plan.append(("topa", c, nid, names))
        nid += 1
        stage.append({"id": nid, "op": "toma", "sam": cm.b64(info["samb"]), "pad": True, "threads": 2})
        plan.append(("toma", c, nid, names))
        nid += 1
    if not stage:
        return bad
    res1 = cm.go_run(stage, ctx.log)
    stage2 = []
    plan2 = []
    pair_skipped = {}
    nid = 0
    for kind, c, sid, names in plan:
        info = c["info"]
        o = res1[sid]
        if o["status"] != "ok":
            c["sample"]["oracle_problems"] = ["%s failed on the same SAM: %s" % (kind, o.get("err", "")[:200])]
            bad.append(c)
            continue
        out = cm.unb64(o["out"]).decode()
        g = c["go"]
        if kind == "topa":
            # one variants run per query file: reference row first (named REF), then the query row
            for chunk in out.split("==")[2::2]:
                msa = chunk.lstrip("\n").encode()
                if info["refid"] != "REF" and msa.count(b">REF") > 1:
                    # toPairAlign names the reference row after @SQ SN: the pair of a query with that very QNAME holds two records of
                    # one name, which `variants -r NAME` cannot be asked about; that query is compared on the toMultiAlign form only
                    pair_skipped.setdefault(c["id"], set()).add("REF")
                    continue
                stage2.append({"id": nid, "op": "variants", "msa": cm.b64(msa), "refid": "REF", "anno": cm.b64(info["annob"]),
                               "suffix": info["suffix"], "start": g["start"], "end": g["end"], "append_snps": g["append_snps"], "threads": 1})
                plan2.append(("pair", c, nid))
                nid += 1
        else:
            blocks = samgen.blocks_of(info["recs"])
            noins = {b[0]["name"] for b in blocks if not any(o_ == "I" for r in b for o_, _ in r["cigar"])}
            rows = [l for l in out.split("\n") if l]
            recs = [(rows[i][1:], rows[i + 1]) for i in range(0, len(rows), 2)]
            keep = [(n, s) for n, s in recs if n in noins]
            if keep:
                msa = gen.layout(ctx.rng, [(info["refid"], info["genome"])] + keep, "plain")
                stage2.append({"id": nid, "op": "variants", "msa": cm.b64(msa), "refid": info["refid"], "anno": cm.b64(info["annob"]),
                               "suffix": info["suffix"], "start": g["start"], "end": g["end"], "append_snps": g["append_snps"], "threads": 2})
                plan2.append(("pad", c, nid))
                nid += 1
    res2 = cm.go_run(stage2, ctx.log) if stage2 else {}
    pair_names = {}
    for kind, c, sid in plan2:
        if kind == "pair" and res2[sid]["status"] == "ok":
            pair_names.setdefault(c["id"], set()).update(n for n, _ in anno.parse_rows(cm.unb64(res2[sid]["out"]))[1])
    for c in cases:
        if c["id"] in pair_names and obs[c["id"]]["status"] == "ok":
            extra_rows = [n for n, _ in anno.parse_rows(cm.unb64(obs[c["id"]]["out"]))[1] if n not in pair_names[c["id"]] and n not in pair_skipped.get(c["id"], ())]
            if extra_rows:
                c["sample"].setdefault("oracle_problems", []).append("sam variants has a row for %r; variants on the toPairAlign pairs reports no such row" % extra_rows)
                if c not in bad:
                    bad.append(c)
    for kind, c, sid in plan2:
        o = res2[sid]
        sv = dict(anno.parse_rows(cm.unb64(obs[c["id"]]["out"]))[1])
        if o["status"] != "ok":
            probs = ["variants failed on the %s form: %s" % (kind, o.get("err", "")[:200])]
        else:
            probs = []
            for name, muts in anno.parse_rows(cm.unb64(o["out"]))[1]:
                if sv.get(name) != muts:
                    probs.append("%s: sam variants reports %r, variants on the %s form reports %r" % (name, sv.get(name), kind, muts))
        if probs:
            c["sample"].setdefault("oracle_problems", [])
            c["sample"]["oracle_problems"] += probs[:3]
            if c not in bad:
                bad.append(c)
    _state["second_stage_runs"] = len(stage) + len(stage2)
    return bad


_state = {}


def coverage_extra(ctx):
    return {"binary_runs": _cmd_state.get("binary_runs", 0), "second_stage_go_runs": _state.get("second_stage_runs", 0)}


def extra(ctx, obl, cases, obs):
    """the command through the built binary (cmd/*.go): binary = library entry point, and the option handling the command does itself"""
    n = 2 if ctx.tier == "quick" else 12
    _cmd_state["binary_runs"] = cmdlayer.sam_layer(ctx, 'variants', n)


_cmd_state = {}
