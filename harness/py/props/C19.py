"""C19: a failed output write is never reported as success."""
import os
import re
import tempfile
import common as cm
import gen
import anno
import samgen
import udgen
import vcommon

RULE = ("for each exported entry point that takes the output destination as an io.Writer (snps.SNPs per-sequence and "
        "--aggregate, updown.List, updown.TopRanking list and --table, closest.Closest, closest.ClosestN list and --table, "
        "variants.Variants per-sequence and --aggregate, sam.ToMultiAlign plain and wrapped, sam.Variants) on representative "
        "generated inputs: a normal run counts the Write calls N, then for EVERY k in 1..N the k-th Write fails and the entry "
        "point must return an error (enumerated, not sampled); OS-level failure is sampled through the built binary with "
        "output redirected to /dev/full (every command, incl. sam toPairAlign -o stdout). Non-trivial: the run performs >= 3 "
        "writes. Distinct by (entry point, input).")
ASSUMPTIONS = ["the go/ast classification of write call sites (harness/go/cmd/sites) is syntactic and trusted; it is cross-checked "
               "dynamically by the fault enumeration",
               "propagation from a checked site through the error channel / select loops to the caller is observed, not proved"]
_state = {}


def targets(rng, tier):
    out = []
    reps = 2 if tier == "quick" else 12
    for _ in range(reps):
        w = 12
        ref = gen.rand_seq(rng, w)
        recs = [("s%d" % i, gen.mutate(rng, ref, p_sub=0.3)) for i in range(3)]
        refb, alnb = gen.layout(rng, [("r", ref)], "plain"), gen.layout(rng, recs, "plain")
        out.append(("snps", {"ref": cm.b64(refb), "aln": cm.b64(alnb)}))
        out.append(("snps", {"ref": cm.b64(refb), "aln": cm.b64(alnb), "aggregate": True}))
        out.append(("updown_list", {"ref": cm.b64(refb), "aln": cm.b64(alnb)}))
        # every row written through the quoting path (IDs with commas and quotes), and a mixture
        qrecs = [(nm, sq) for nm, sq in zip(['a,b', 'hCoV-19/x,y|2020', 'q"1"'], [r[1] for r in recs])]
        out.append(("updown_list", {"ref": cm.b64(refb), "aln": cm.b64(gen.layout(rng, qrecs, "plain"))}))
        out.append(("updown_list", {"ref": cm.b64(refb), "aln": cm.b64(gen.layout(rng, [recs[0], qrecs[1], recs[2]], "plain"))}))
        r2, qs, ts = udgen.make_inputs(rng, nq=2, nt=6)
        base = {"ref": cm.b64(gen.layout(rng, [("ref", r2)], "plain")), "query": cm.b64(gen.layout(rng, qs, "plain")),
                "target": cm.b64(gen.layout(rng, ts, "plain")), "distall": 100, "threshpair": 1.0}
        out.append(("topranking", dict(base, table=False)))
        out.append(("topranking", dict(base, table=True)))
        cq = {"query": base["query"], "target": base["target"]}
        out.append(("closest", dict(cq, measure="raw")))
        out.append(("closest", dict(cq, measure="snp", n=3)))
        out.append(("closest", dict(cq, measure="tn93", n=3, table=True)))
        genome, feats, ref_row, rows = vcommon.random_setup(rng, mod3_segments=True, nq=3)
        if feats:
            msa, _ = vcommon.build_msa(rng, ref_row, rows, refpos="first", style="plain")
            annob = anno.render_gff(genome, feats)
            v = {"msa": cm.b64(msa), "refid": "REF", "anno": cm.b64(annob), "suffix": "gff"}
            out.append(("variants", dict(v)))
            out.append(("variants", dict(v, aggregate=True)))
            if len(out) < 40:
                # many more records than the reader's channel buffer (50 + threads) holds: the failing write is reported while
                # the reader is still at work
                many = [gen.mutate(rng, ref_row, p_sub=0.1, p_amb=0.0, p_gap=0.0, p_lower=0.0) if "-" not in ref_row else rows[0] for _ in range(160)]
                msa_long, _ = vcommon.build_msa(rng, ref_row, many, refpos="first", style="plain")
                out.append(("variants", dict(v, msa=cm.b64(msa_long), threads=2)))
            srecs = []
            for qi in range(3):
                srecs += samgen.make_query_topa(rng, genome, "q%d" % qi)
            for r in srecs:
                r["cigar"] = [(o, l) for o, l in r["cigar"] if o not in "NP"] or [("M", 1)]
                r["seq"] = samgen.build_seq(rng, r["cigar"], r["pos"], genome)
            samb = samgen.render_sam("REF", len(genome), srecs)
            # sam indels: two output destinations, each one failing on its own
            irecs = [{"name": "i%d" % qi, "flag": 0, "pos": 0, "cigar": [("M", 5), ("I", 2), ("M", 4), ("D", 3), ("M", len(genome) - 12)], "seq": ""} for qi in range(3)]
            for r in irecs:
                r["seq"] = samgen.build_seq(rng, r["cigar"], 0, genome)
            isam = cm.b64(samgen.render_sam("REF", len(genome), irecs))
            out.append(("indels_ins", {"sam": isam}))
            out.append(("indels_del", {"sam": isam}))
            out.append(("toma", {"sam": cm.b64(samb)}))
            out.append(("toma", {"sam": cm.b64(samb), "wrap": 7}))
            out.append(("samvariants", {"sam": cm.b64(samb), "ref": cm.b64(gen.layout(rng, [("REF", genome)], "plain")),
                                        "ref_from_file": True, "anno": cm.b64(annob), "suffix": "gff"}))
    return out


def check(ctx):
    import check as chk
    res = cm.build_harness(ctx.log)
    if any(rc != 0 for rc, _ in res.values()):
        raise RuntimeError("harness build failed")
    cm.regen_tables(ctx.log)
    cm.regen_sites(ctx.log)
    okm, _ = cm.coq_make(["theories/Check_C19.vo"], ctx.log)
    obl = cm.check_obligations(ctx.pid, ctx.log)
    tl = targets(ctx.rng, ctx.tier)
    cases = [dict(c, id=i, op="failwrite", entry=t, timeout_ms=120000) for i, (t, c) in enumerate(tl)]
    obs = cm.go_run(cases, ctx.log)
    total_faults = 0
    silent_found = []
    per_target = {}
    samples = []
    for c in cases:
        o = obs[c["id"]]
        ex = o.get("extra") or {}
        if o["status"] != "ok":
            cm.violation(ctx, "machinery-error", {"what": "baseline run of %s failed: %s" % (c["entry"], o.get("err", ""))}, no_failing_input=True)
            continue
        n = ex.get("writes", 0)
        total_faults += n
        per_target[c["entry"]] = per_target.get(c["entry"], 0) + n
        if len(samples) < 3:
            samples.append({"entry_point": c["entry"], "writes": n, "fault_positions_tried": list(range(1, n + 1))})
        for k in ex.get("silent", []):
            silent_found.append((c, k, "returned nil"))
        for k in ex.get("hung", []):
            silent_found.append((c, k, "did not return within 5 s"))
    for c, k, what in silent_found[:5]:
        cm.violation(ctx, "failing-input", {"what": "%s: the %d-th Write failed and the entry point %s" % (c["entry"], k, what),
                                            "case": {kk: vv for kk, vv in c.items() if kk not in ("id",)}, "k": k})
    # OS-level: the binary with its output on /dev/full
    binp = cm.build_binary(ctx.log)
    bin_runs = 0
    if binp:
        tmp = tempfile.mkdtemp(prefix="verif-c19-")
        try:
            rng = ctx.rng
            genome, feats, ref_row, rows = vcommon.random_setup(rng, mod3_segments=True, nq=2)
            while not feats:
                genome, feats, ref_row, rows = vcommon.random_setup(rng, mod3_segments=True, nq=2)
            msa, _ = vcommon.build_msa(rng, ref_row, rows, refpos="first", style="plain")
            P = lambda n, b: (open(os.path.join(tmp, n), "wb").write(b), os.path.join(tmp, n))[1]
            mp, ap = P("m.fasta", msa), P("a.gff", anno.render_gff(genome, feats))
            rp = P("r.fasta", gen.layout(rng, [("REF", genome)], "plain"))
            srecs = samgen.make_query_topa(rng, genome, "q0")
            sp = P("a.sam", samgen.render_sam("REF", len(genome), srecs))
            ap2 = P("aln.fasta", gen.layout(rng, [("s%d" % i, gen.mutate(rng, genome)) for i in range(3)], "plain"))
            cmds = [["snps", "-r", rp, "-q", ap2], ["snps", "-r", rp, "-q", ap2, "--aggregate"],
                    ["updown", "list", "-r", rp, "-q", ap2], ["updown", "topranking", "-r", rp, "-q", ap2, "-t", ap2, "--dist-all", "100"],
                    ["updown", "topranking", "-r", rp, "-q", ap2, "-t", ap2, "--dist-all", "100", "--table"],
                    ["closest", "--query", ap2, "--target", ap2], ["closest", "--query", ap2, "--target", ap2, "-n", "2"],
                    ["closest", "--query", ap2, "--target", ap2, "-n", "2", "--table"],
                    ["variants", "--msa", mp, "-r", "REF", "-a", ap], ["variants", "--msa", mp, "-r", "REF", "-a", ap, "--aggregate"],
                    ["sam", "toMultiAlign", "-s", sp], ["sam", "toMultiAlign", "-s", sp, "--wrap", "5"],
                    ["sam", "toPairAlign", "-s", sp, "-r", rp, "-o", "stdout"], ["sam", "variants", "-s", sp, "-r", rp, "-a", ap]]
            for cmd in cmds:
                ok = cm.run_binary(binp, cmd)
                bin_runs += 1
                if ok[0] != "ok":
                    continue          # flags differ between versions: only commands that work normally are probed
                with open("/dev/full", "wb") as full:
                    import subprocess
                    try:
                        p = subprocess.run([binp] + cmd, stdout=full, stderr=subprocess.PIPE, timeout=20)
                        rc = p.returncode
                    except subprocess.TimeoutExpired:
                        rc = None
                bin_runs += 1
                if rc == 0 or rc is None:
                    cm.violation(ctx, "failing-input", {"what": "gofasta %s with stdout on /dev/full %s" % (" ".join(cmd[:3]), "exits 0" if rc == 0 else "hangs"),
                                                        "argv": cmd, "files": {os.path.basename(f): open(f).read() for f in (mp, ap, rp, sp, ap2)}})
                # the same destination named through the command's own output option (the cmd layer opens, defers the close
                # and hands the error back)
                if cmd[:2] == ["sam", "toPairAlign"]:
                    continue                      # -o names a directory there
                outopt = "--fasta-out" if cmd[:2] == ["sam", "toMultiAlign"] else "-o"
                r2 = cm.run_binary(binp, cmd + [outopt, "/dev/full"], timeout=20)
                bin_runs += 1
                if r2[0] in ("ok", "hang"):
                    cm.violation(ctx, "failing-input", {"what": "gofasta %s %s /dev/full %s" % (" ".join(cmd[:3]), outopt, "exits 0" if r2[0] == "ok" else "hangs"),
                                                        "argv": cmd + [outopt, "/dev/full"],
                                                        "files": {os.path.basename(f): open(f).read() for f in (mp, ap, rp, sp, ap2)}})
        finally:
            import shutil
            shutil.rmtree(tmp, ignore_errors=True)
    if not obl["ok"] and not ctx.violations:
        # which site is unchecked? evaluate the generated list
        wd = os.path.join(cm.WORK, ctx.pid)
        os.makedirs(wd, exist_ok=True)
        path = os.path.join(wd, "unchecked.v")
        open(path, "w").write("From GF Require Import Check_C19.\nEval vm_compute in unchecked_sites.\n")
        rc, out = cm.coqc_file(path)
        cm.violation(ctx, "proof-obligation", {"what": "a write call site no longer checks its result (Properties_C19.v does not compile); the fault enumeration over the "
                                                      "exported entry points found no run in which the failure is swallowed",
                                               "unchecked_sites": " ".join(out.split())[:1500], "failed": obl["failed"]}, no_failing_input=True)
    cov = {"evaluations": total_faults + bin_runs, "distinct_nontrivial": sum(1 for c in cases if (obs[c["id"]].get("extra") or {}).get("writes", 0) >= 3),
           "rule": RULE, "samples": samples, "exhaustive": True, "fault_positions_enumerated": total_faults, "by_entry_point": per_target,
           "binary_runs": bin_runs, "swallowed_failures": len(silent_found)}
    cm.write_evidence(ctx, obl, cov, ASSUMPTIONS)
