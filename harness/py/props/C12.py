"""C12: output is a deterministic function of the input, not of threads or scheduling."""
import os
import shutil
import subprocess
import tempfile
import common as cm
import gen
import anno
import samgen
import udgen
import vcommon

RULE = ("every command (sam toMultiAlign, sam toPairAlign to stdout and to a directory, sam variants, variants per-sequence and "
        "--aggregate, snps per-sequence and --aggregate, closest / -n, updown list, updown topranking fasta and csv) on a "
        "generated input with many records (ties in aggregate keys, GFF features with equal start, several queries): one "
        "reference run (1 thread, GOMAXPROCS=1, no jitter) and then runs under seeded scheduling jitter at the worker send "
        "sites (verif hook), --threads in {1,2,4,8,16}, GOMAXPROCS in {1,2,4,16}; every run's bytes must equal the reference "
        "run's. A -race build of the binary repeats a subset; any 'DATA RACE' report is a violation. The evidence counts "
        "the runs in which the hook observed a record overtaking an earlier one. Non-trivial: runs in which completion "
        "order really differed from arrival order, or threads > 1. Distinct by (command, threads, GOMAXPROCS, seed).")
ASSUMPTIONS = ["data races and schedule-dependent deadlock are observed (race detector, jitter, repeated runs), not proved",
               "the explored schedules are those the jitter seeds, thread counts and GOMAXPROCS values induce"]


def build_inputs(rng, tmp):
    W = lambda n, b: (open(os.path.join(tmp, n), "wb").write(b), os.path.join(tmp, n))[1]
    L = 60
    genome = gen.rand_seq(rng, L)
    feats = []
    while len(feats) < 2:
        genome = gen.rand_seq(rng, L)
        feats = anno.random_features(rng, L, max_feats=3, mod3_segments=True)
        genome, feats = anno.patch_stops(rng, genome, feats)
    # two named features with the same start (D8a) when possible
    f0 = feats[0]
    if f0.strand == "+" and len(f0.segments) == 1 and f0.segments[0][1] - f0.segments[0][0] >= 8:
        a, b = f0.segments[0]
        feats.append(anno.Feature("g9", "+", [(a, b)], 1, True))
    nrec = 40
    ref_row, rows = anno.make_msa(rng, genome, nrec)
    # make ties in the aggregate (same position, different lengths / alleles)
    msa = W("msa.fasta", gen.layout(rng, [("REF", ref_row)] + [("s%d" % i, r) for i, r in enumerate(rows)], "plain"))
    # the reference inside the alignment but not first: near the end of a short file, so that the records behind it can
    # all overtake it (the writer has to step over the reference record whatever the arrival order)
    short = [("s%d" % i, r) for i, r in enumerate(rows[:9])]
    msa2 = W("msa_ref_near_end.fasta", gen.layout(rng, short[:7] + [("REF", ref_row)] + short[7:], "plain"))
    msa3 = W("msa_ref_middle.fasta", gen.layout(rng, [("s%d" % i, r) for i, r in enumerate(rows[:20])] + [("REF", ref_row)] +
                                            [("s%d" % i, r) for i, r in enumerate(rows[20:], 20)], "plain"))
    # a SHORT alignment (it fits the reader's channel buffer whole) with the reference first, to be given on stdin
    msa_short = W("msa_short.fasta", gen.layout(rng, [("REF", ref_row)] + [("s%d" % i, r) for i, r in enumerate(rows[:4])], "plain"))
    gff = W("anno.gff", anno.render_gff(genome, feats))
    gb = W("anno.gb", anno.render_genbank(genome, [f for f in feats]))
    # several named features with different IDs starting at one position (as ORF1ab, ORF1a and nsp1 all start at 266): their
    # relative order in the output must not depend on a map's iteration order; divergent queries change the shared codons
    third = 8
    g5 = gen.rand_seq(rng, 6 * third + 6)
    f5 = [anno.Feature("poly", "+", [(4, 3 + 3 * third), (4 + 3 * third, 3 + 6 * third)], 1, True), anno.Feature("pepA", "+", [(4, 3 + 3 * third)], 1, True),
          anno.Feature("pepB", "+", [(4, 3 + 3 * (third // 2))], 1, True), anno.Feature("pepC", "+", [(4, 3 + 3 * 2)], 1, True)]
    g5, f5 = anno.patch_stops(rng, g5, f5)
    gff5 = W("anno_same_start.gff", anno.render_gff(g5, f5))
    rows5 = [gen.mutate(rng, g5, p_sub=0.3, p_amb=0.0, p_gap=0.0, p_lower=0.0) for _ in range(12)]
    msa5 = W("msa_same_start.fasta", gen.layout(rng, [("REF", g5)] + [("s%d" % i, r) for i, r in enumerate(rows5)], "plain"))
    ref = W("ref.fasta", gen.layout(rng, [("REF", genome)], "plain"))
    aln = W("aln.fasta", gen.layout(rng, [("s%d" % i, gen.mutate(rng, genome, p_sub=0.08, p_amb=0.04, p_gap=0.03)) for i in range(nrec)], "plain"))
    srecs = []
    for qi in range(nrec):
        q = samgen.make_query_topa(rng, genome, "q%d" % qi)
        for r in q:
            r["cigar"] = [(o, l) for o, l in r["cigar"] if o not in "NP"] or [("M", 1)]
            r["seq"] = samgen.build_seq(rng, r["cigar"], r["pos"], gen.mutate(rng, genome, p_sub=0.05, p_amb=0.0, p_gap=0.0))
        srecs += q
    sam = W("a.sam", samgen.render_sam("REF", L, srecs))
    r2, qs, ts = udgen.make_inputs(rng, w=24, nq=4, nt=30)
    r3, qs3, ts3 = udgen.make_inputs_crowded(rng, {"up": 3, "down": 22, "side": 16, "same": 2})
    udref3 = W("udref3.fasta", gen.layout(rng, [("ref", r3)], "plain"))
    udq3 = W("udq3.fasta", gen.layout(rng, qs3, "plain"))
    udt3 = W("udt3.fasta", gen.layout(rng, ts3, "plain"))
    udref = W("udref.fasta", gen.layout(rng, [("ref", r2)], "plain"))
    udq = W("udq.fasta", gen.layout(rng, qs, "plain"))
    udt = W("udt.fasta", gen.layout(rng, ts, "plain"))
    return dict(msa_short=msa_short, gff5=gff5, msa5=msa5, udref3=udref3, udq3=udq3, udt3=udt3, msa=msa, msa2=msa2, msa3=msa3, gff=gff, gb=gb, ref=ref, aln=aln, sam=sam, udref=udref, udq=udq, udt=udt, tmp=tmp)


def commands(F, binp):
    T = "{threads}"
    cmds = {
        "sam toMultiAlign": ["sam", "toMultiAlign", "-s", F["sam"], "-t", T],
        "sam toMultiAlign --wrap": ["sam", "toMultiAlign", "-s", F["sam"], "-t", T, "--wrap", "11", "--pad"],
        "sam toPairAlign -o stdout": ["sam", "toPairAlign", "-s", F["sam"], "-r", F["ref"], "-o", "stdout", "-t", T],
        "sam variants": ["sam", "variants", "-s", F["sam"], "-r", F["ref"], "-a", F["gff"], "-t", T, "--append-snps"],
        "sam variants --aggregate": ["sam", "variants", "-s", F["sam"], "-r", F["ref"], "-a", F["gff"], "-t", T, "--aggregate"],
        "variants gff": ["variants", "--msa", F["msa"], "-r", "REF", "-a", F["gff"], "-t", T, "--append-snps"],
        "variants gb": ["variants", "--msa", F["msa"], "-r", "REF", "-a", F["gb"], "-t", T],
        "variants ref-near-end": ["variants", "--msa", F["msa2"], "-r", "REF", "-a", F["gff"], "-t", T, "--append-snps"],
        "variants ref-middle": ["variants", "--msa", F["msa3"], "-r", "REF", "-a", F["gff"], "-t", T],
        "variants, features sharing a start": ["variants", "--msa", F["msa5"], "-r", "REF", "-a", F["gff5"], "-t", T],
        "variants, short alignment on stdin": ["variants", "-r", "REF", "-a", F["gff"], "-t", T, "<" + F["msa_short"]],
        "variants --aggregate": ["variants", "--msa", F["msa"], "-r", "REF", "-a", F["gff"], "-t", T, "--aggregate"],
        "snps": ["snps", "-r", F["ref"], "-q", F["aln"]],
        "snps --aggregate": ["snps", "-r", F["ref"], "-q", F["aln"], "--aggregate"],
        "closest": ["closest", "--query", F["udq"], "--target", F["udt"], "-t", T],
        "closest -n": ["closest", "--query", F["udq"], "--target", F["udt"], "-n", "5", "--table", "-t", T],
        "updown list": ["updown", "list", "-r", F["udref"], "-q", F["udt"]],
        "updown topranking": ["updown", "topranking", "-r", F["udref"], "-q", F["udq"], "-t", F["udt"], "--size-total", "12"],
        "updown topranking push": ["updown", "topranking", "-r", F["udref"], "-q", F["udq"], "-t", F["udt"], "--dist-push", "2", "--table"],
        "updown topranking push, long bins": ["updown", "topranking", "-r", F["udref3"], "-q", F["udq3"], "-t", F["udt3"], "--dist-push", "3"],
        "updown topranking sizes, long bins": ["updown", "topranking", "-r", F["udref3"], "-q", F["udq3"], "-t", F["udt3"], "--size-total", "40", "--table"],
    }
    return cmds


def run(binp, argv, threads, maxprocs, seed, report):
    env = dict(os.environ, GOMAXPROCS=str(maxprocs))
    if seed:
        env["GOFASTA_VERIF_SEED"] = str(seed)
        env["GOFASTA_VERIF_REPORT"] = report
    else:
        env.pop("GOFASTA_VERIF_SEED", None)
    argv = [a.replace("{threads}", str(threads)) for a in argv]
    stdin = None
    if argv and argv[-1].startswith("<"):          # "<FILE": the file is given on standard input
        stdin = open(argv[-1][1:], "rb").read()
        argv = argv[:-1]
    return cm.run_binary(binp, argv, timeout=60, env=env, stdin=stdin) + (argv,)


def check(ctx):
    cm.build_harness(ctx.log)
    cm.regen_tables(ctx.log)
    cm.regen_sites(ctx.log)
    cm.coq_make(["theories/Check_C12.vo"], ctx.log)
    obl = cm.check_obligations(ctx.pid, ctx.log)
    binp = cm.build_binary(ctx.log)
    if not binp:
        raise RuntimeError("gofasta does not build")
    rng = ctx.rng
    tmp = tempfile.mkdtemp(prefix="verif-c12-")
    runs = 0
    permuted_runs = 0
    samples = []
    bad = []
    race_runs = 0
    try:
        F = build_inputs(rng, tmp)
        cmds = commands(F, binp)
        # the CSV form of updown topranking
        cls, rc, out, err, _ = run(binp, ["updown", "list", "-r", F["udref"], "-q", F["udt"]], 1, 1, 0, "")
        open(os.path.join(tmp, "udt.csv"), "wb").write(out)
        cls, rc, out, err, _ = run(binp, ["updown", "list", "-r", F["udref"], "-q", F["udq"]], 1, 1, 0, "")
        open(os.path.join(tmp, "udq.csv"), "wb").write(out)
        cmds["updown topranking csv"] = ["updown", "topranking", "-q", os.path.join(tmp, "udq.csv"), "-t", os.path.join(tmp, "udt.csv"), "--size-total", "12"]
        # sam toPairAlign to a directory: compare the directory contents
        nseeds = 3 if ctx.tier == "quick" else 25
        configs = [(t, p) for t in (1, 2, 4, 8, 16) for p in (1, 2, 4, 16)]
        for name, argv in cmds.items():
            cls0, rc0, ref_out, err0, a0 = run(binp, argv, 1, 1, 0, "")
            runs += 1
            if cls0 != "ok":
                raise RuntimeError("reference run of %s failed: %s" % (name, err0.decode()[-300:]))
            picks = rng.sample(configs, 6 if ctx.tier == "quick" else len(configs))
            for (t, p) in picks:
                for s in range(1, nseeds + 1):
                    seed = rng.randrange(1, 10 ** 6)
                    report = os.path.join(tmp, "report.txt")
                    if os.path.exists(report):
                        os.remove(report)
                    cls, rc, out, err, a = run(binp, argv, t, p, seed, report)
                    runs += 1
                    perm = os.path.exists(report) and os.path.getsize(report) > 0
                    permuted_runs += 1 if perm else 0
                    if len(samples) < 3 and perm:
                        samples.append({"command": name, "threads": t, "GOMAXPROCS": p, "jitter_seed": seed,
                                        "overtakes_reported_by_hook": open(report).read().count("\n")})
                    if cls != "ok" or out != ref_out:
                        bad.append({"what": "%s: output differs from the single-threaded reference run (threads=%d GOMAXPROCS=%d jitter seed=%d): %s"
                                            % (name, t, p, seed, cls),
                                    "argv": [os.path.basename(x) if x.startswith(tmp) else x for x in a],
                                    "env": {"GOMAXPROCS": p, "GOFASTA_VERIF_SEED": seed},
                                    "reference_output": ref_out.decode("latin1")[:3000], "this_output": out.decode("latin1")[:3000],
                                    "stderr": err.decode("latin1")[-500:],
                                    "files": {os.path.basename(f): open(f, "rb").read().decode("latin1")[:6000] for f in set(x for x in a if x.startswith(tmp) and os.path.isfile(x))}})
                        break
                if bad and bad[-1]["what"].startswith(name):
                    break
        # directory output of toPairAlign
        d1, d2 = os.path.join(tmp, "p1"), os.path.join(tmp, "p2")
        run(binp, ["sam", "toPairAlign", "-s", F["sam"], "-r", F["ref"], "-o", d1, "-t", "1"], 1, 1, 0, "")
        run(binp, ["sam", "toPairAlign", "-s", F["sam"], "-r", F["ref"], "-o", d2, "-t", "8"], 8, 8, 77, os.path.join(tmp, "report.txt"))
        runs += 2
        if sorted(os.listdir(d1)) != sorted(os.listdir(d2)) or any(open(os.path.join(d1, f), "rb").read() != open(os.path.join(d2, f), "rb").read() for f in os.listdir(d1)):
            bad.append({"what": "sam toPairAlign to a directory: files differ between 1 and 8 threads"})
        # a reader that is slower than the writer: more output than a pipe holds (64 KiB), read only after a pause - the bytes
        # that arrive, and the exit status, are those of the run into a file (what is still buffered when the command returns is lost)
        import subprocess, time
        bref = gen.rand_seq(rng, 12, "ACGT")
        bigaln = os.path.join(tmp, "big.fasta")
        with open(bigaln, "wb") as fh:
            fh.write(gen.layout(rng, [("b%d" % i, gen.mutate(rng, bref, p_sub=0.25, p_amb=0.1, p_gap=0.0, p_lower=0.0)) for i in range(4500)], "plain"))
        brefp = os.path.join(tmp, "bigref.fasta")
        open(brefp, "wb").write(gen.layout(rng, [("r", bref)], "plain"))
        for name, argv in (("snps", ["snps", "-r", brefp, "-q", bigaln]), ("updown list", ["updown", "list", "-r", brefp, "-q", bigaln]),
                           ("closest", ["closest", "--query", bigaln, "--target", brefp])):
            outp = os.path.join(tmp, "slow_out.txt")
            cf = cm.run_binary(binp, argv + ["-o", outp], timeout=120)
            want = open(outp, "rb").read() if os.path.exists(outp) else b""
            for rep in range(2 if ctx.tier == "quick" else 6):
                pr = subprocess.Popen([binp] + argv, stdout=subprocess.PIPE, stderr=subprocess.PIPE)
                time.sleep(0.3)
                got = b""
                fd = pr.stdout.fileno()
                while True:                      # 2 KiB every few milliseconds: the pipe stays full until the writer's very last byte
                    chunk = os.read(fd, 2048)
                    if not chunk:
                        break
                    got += chunk
                    time.sleep(0.003)
                pr.stderr.read()
                rc = pr.wait()
                runs += 1
                if cf[0] != "ok" or rc != 0 or got != want:
                    bad.append({"what": "%s: a slow reader of stdout receives %d bytes (exit status %s), the run with -o FILE wrote %d bytes (status %s)"
                                        % (name, len(got), rc, len(want), cf[0]),
                                "argv": argv[:1] + ["..."], "note": "4500 records of 12 columns; stdout read 2 KiB at a time, after 0.3 s",
                                "tail_received": got[-200:].decode("latin1"), "tail_of_file": want[-200:].decode("latin1")})
                    break
        # race detector
        racebin = cm.build_binary(ctx.log, race=True)
        if racebin:
            for name, argv in list(cmds.items())[: (6 if ctx.tier == "quick" else len(cmds))]:
                cls, rc, out, err, a = run(racebin, argv, 8, 8, 4242, os.path.join(tmp, "report.txt"))
                race_runs += 1
                if b"DATA RACE" in err:
                    bad.append({"what": "%s: the race detector reports a data race" % name, "argv": [os.path.basename(x) if x.startswith(tmp) else x for x in a],
                                "stderr": err.decode("latin1")[:3000]})
        for b in bad[:6]:
            cm.violation(ctx, "failing-input", b)
        if not obl["ok"] and not bad:
            cm.violation(ctx, "proof-obligation", {"what": "an obligation of Properties_C12.v no longer checks; no run produced different bytes",
                                                   "failed": obl["failed"], "coq_log": obl["log"][-2000:]}, no_failing_input=True)
        if not samples:
            samples.append({"command": "sam toMultiAlign", "note": "no run reported an overtaking record"})
        cov = {"evaluations": runs + race_runs, "distinct_nontrivial": permuted_runs, "rule": RULE, "samples": samples,
               "runs_in_which_completion_order_differed": permuted_runs, "race_detector_runs": race_runs, "commands": sorted(cmds),
               "differing_outputs": len(bad)}
        cm.write_evidence(ctx, obl, cov, ASSUMPTIONS)
    finally:
        shutil.rmtree(tmp, ignore_errors=True)
