"""C09: updown topranking gives identical results for CSV and FASTA inputs."""
import os
import common as cm
import cmdlayer
import gen
import udgen
from props.C08 import tr_case

IMPORTS = ["Base", "Harness", "TopRankModel", "Check_C08"]
CHECK_FN = "check_C08"
RULE = ("inputs as in C08 (a quarter of them with gaps, N or IUPAC codes in the reference) with 1..4 queries (m > 1 in most cases) and 1..9 targets; `updown list` (the real command) derives "
        "the CSV of the query and of the target alignment; `updown topranking` is then run in all four csv/fasta "
        "combinations under the same option set; the four outputs must be byte-identical, one row per query in query-file "
        "order; the fasta/fasta run is also compared with the Coq model. Non-trivial: m > 1. Distinct by content.")
ASSUMPTIONS = ["encoding/csv is trusted; IDs contain none of , \" CR LF (updown list does not quote)"]
_state = {}


def generate(ctx):
    rng = ctx.rng
    cs = []
    n = 50 if ctx.tier == "quick" else 800
    for cid in range(n):
        # one case with more queries than any stage has buffer slots or workers (channel capacities are runtime.NumCPU())
        ref, queries, targets = udgen.make_inputs(rng, nq=rng.choice([1, 2, 2, 3, 4]) if cid != 1 else 3 * (os.cpu_count() or 8) + 7)
        if cid % 4 == 3:
            # "for every reference": gaps, N and IUPAC codes in the reference too (updown list only warns about them);
            # both commands read the reference themselves and must read it alike
            r = list(ref)
            for _ in range(rng.randint(1, 3)):
                r[rng.randrange(len(r))] = rng.choice("--NRY")
            ref = "".join(r)
        if cid % 5 == 2:
            # sequence IDs are free text up to the first white space: commas, quotes and other punctuation have to survive
            # the CSV that updown list writes and topranking reads back
            odd = ['a,b%d', 'q"%d', '"quoted%d"', "hCoV-19/x,y|%d", "it's;%d", ",%d", '%d,', 'x""y%d', "#q%d", "#%d", ";%d", "'%d", "=%d", "\\%d", "#,%d"]
            queries = [(rng.choice(odd) % i, s) for i, (_, s) in enumerate(queries)]
            targets = [((rng.choice(odd) % (100 + i)) if rng.random() < 0.5 else nm, s) for i, (nm, s) in enumerate(targets)]
        o = udgen.random_opts(rng, len(targets))
        c = tr_case(cid, ref, queries, targets, o, rng, {"kind": "fasta/fasta", "nontrivial": len(queries) > 1})
        cs.append(c)
    return cs


def post_go(ctx, cases, obs):
    bad = []
    stage = []
    nid = 0
    plan = []
    for c in cases:
        info = c["info"]
        if obs[c["id"]]["status"] != "ok":
            c["sample"]["oracle_problems"] = ["fasta/fasta run failed: " + obs[c["id"]].get("err", "")[:200]]
            bad.append(c)
            continue
        g = c["go"]
        for which in ("query", "target"):
            stage.append({"id": nid, "op": "updown_list", "ref": g["ref"], "aln": g[which]})
            plan.append((c, which, nid))
            nid += 1
    res = cm.go_run(stage, ctx.log) if stage else {}
    csvs = {}
    for c, which, sid in plan:
        if res[sid]["status"] != "ok":
            c["sample"]["oracle_problems"] = ["updown list failed on the %s alignment" % which]
            if c not in bad:
                bad.append(c)
            continue
        csvs[(c["id"], which)] = res[sid]["out"]
    stage2 = []
    plan2 = []
    nid = 0
    for c in cases:
        if (c["id"], "query") not in csvs or (c["id"], "target") not in csvs:
            continue
        g = c["go"]
        for qt, tt in (("csv", "fasta"), ("fasta", "csv"), ("csv", "csv")):
            g2 = dict(g, id=nid, qtype=qt, ttype=tt,
                      query=csvs[(c["id"], "query")] if qt == "csv" else g["query"],
                      target=csvs[(c["id"], "target")] if tt == "csv" else g["target"])
            stage2.append(g2)
            plan2.append((c, qt + "/" + tt, nid))
            nid += 1
    res2 = cm.go_run(stage2, ctx.log) if stage2 else {}
    for c, combo, sid in plan2:
        o = res2[sid]
        base = obs[c["id"]]
        if o["status"] != "ok" or o["out"] != base["out"]:
            c["sample"].setdefault("oracle_problems", []).append(
                "%s differs from fasta/fasta: %s %r vs %r" % (combo, o["status"], cm.unb64(o.get("out", "")).decode()[:400], cm.unb64(base["out"]).decode()[:400]))
            c["sample"]["query_csv"] = cm.unb64(csvs[(c["id"], "query")]).decode()
            if c not in bad:
                bad.append(c)
    # one row per query in query-file order (list form) / query order (table form)
    for c in cases:
        if obs[c["id"]]["status"] == "ok" and not c["info"]["opts"]["table"]:
            lines = [l for l in cm.unb64(obs[c["id"]]["out"]).decode().split("\n")[1:] if l]
            want = [n for n, _ in c["info"]["queries"]]
            # the query ID is written as it is (it may itself contain commas): each row has to begin with its ID and a comma
            if len(lines) != len(want) or any(not l.startswith(n + ",") for l, n in zip(lines, want)):
                c["sample"].setdefault("oracle_problems", []).append("rows %r, expected one per query in order %r" % ([l[:30] for l in lines], want))
                if c not in bad:
                    bad.append(c)
    _state["second_stage_runs"] = len(stage) + len(stage2)
    return bad


def coverage_extra(ctx):
    return {"csv_lines": _cmd_state.get("csv_lines", 0), "csv_model_mismatches": _cmd_state.get("csv_model_mismatches", 0), "binary_runs": _cmd_state.get("binary_runs", 0), "second_stage_go_runs": _state.get("second_stage_runs", 0), "format_combinations": 4}


def extra(ctx, obl, cases, obs):
    """the command through the built binary (cmd/*.go): binary = library entry point, and the option handling the command does itself"""
    n = 2 if ctx.tier == "quick" else 12
    _cmd_state["binary_runs"] = cmdlayer.updown_layer(ctx, 'topranking', n)
    # the CSV text itself: encoding/csv = CsvModel.csv_parse, and lines written with csvField's model come back field by field
    import csvlayer
    cm.coq_make(["theories/Check_Csv.vo"], ctx.log)
    _cmd_state.update(csvlayer.run(ctx, 300 if ctx.tier == "quick" else 5000))


_cmd_state = {}
