"""C17: the genetic code and nucleotide tables are sound and complete over IUPAC."""
import itertools
import common as cm
import gen

IMPORTS = ["Base", "Harness", "Check_C17"]
CHECK_FN = "check_C17"
RULE = ("translate: the complete 15^3 codon grid (lenient, as 15 sequences of 225 codons; strict, one codon per case: "
        "all 3375 in both tiers) plus random sequences incl. lower case, "
        "non-IUPAC bytes and lengths not divisible by 3; complement/reverse-complement in text and bit-encoded form "
        "(both gap encodings) on all 32 accepted characters and random sequences; every text complement and one translation in seven is "
        "repeated 300 times while three other goroutines call the same package functions on other sequences (the workers of --threads N do so) "
        "and must return what it returned alone. Non-trivial: contains an ambiguity "
        "code or gap. Distinct by case content.")


def case(cid, op, hard, x, gocase, meta):
    return {"id": cid, "go": dict(gocase, id=cid),
            "coq": lambda obs: "(%d, %s, %s, %s)" % (op, cm.cbool(hard), cm.cbytes(x), cm.cgores(obs)),
            "meta": meta, "sample": {"op": gocase["op"], "input": x.decode("latin1"), **{k: v for k, v in gocase.items() if k in ("strict", "hard", "reverse")}}}


def tr(cid, x, strict, kind):
    nt = any(c not in b"ACGT" for c in x)
    return case(cid, 1 if strict else 0, False, x, {"op": "translate", "nuc": cm.b64(x), "strict": strict, "load": cid % 7 == 0},
                {"kind": kind, "nontrivial": nt})


def comp(cid, x, reverse, kind):
    return case(cid, 3 if reverse else 2, False, x, {"op": "complement", "nuc": cm.b64(x), "reverse": reverse, "load": True},
                {"kind": kind, "nontrivial": any(c not in b"ACGTacgt" for c in x)})


def ecomp(cid, x, hard, reverse, kind):
    return case(cid, 5 if reverse else 4, hard, x, {"op": "ecomplement", "nuc": cm.b64(x), "hard": hard, "reverse": reverse},
                {"kind": kind, "nontrivial": any(c not in b"ACGTacgt" for c in x)})


def generate(ctx):
    rng = ctx.rng
    cs = []
    n = itertools.count()
    codes = gen.IUPAC
    allcodons = ["".join(t) for t in itertools.product(codes, repeat=3)]
    for c1 in codes:                      # lenient: the whole grid
        seq = "".join(c1 + c2 + c3 for c2 in codes for c3 in codes)
        cs.append(tr(next(n), seq.encode(), False, "codon-grid-lenient"))
    sample = rng.sample(allcodons, 400)          # (kept: the stream of rng is what it was)
    strict = allcodons                           # all 3375, in both tiers: a few seconds
    for cod in strict:
        cs.append(tr(next(n), cod.encode(), True, "codon-strict"))
    for _ in range(40 if ctx.tier == "quick" else 400):
        L = rng.choice([0, 1, 2, 3, 4, 6, 30, 31, 299, 300])
        alpha = rng.choice(["ACGT", gen.IUPAC, gen.IUPAC + "acgtn-?X"])
        cs.append(tr(next(n), gen.rand_seq(rng, L, alpha).encode(), rng.random() < 0.5, "translate-random"))
    # a sequence that translates for a while and THEN holds a codon with no single product (strict: refused; lenient: X), followed by
    # ordinary calls: a refused call leaves nothing behind for the next (the op repeats each call and translates a probe after it)
    import random
    wr = random.Random(1717 + ctx.seed)
    for k in range(12 if ctx.tier == "quick" else 100):
        pre = "".join(wr.choice("ACGT") for _ in range(3 * wr.randint(1, 6)))
        bad = wr.choice(["NNN", "ATN", "RAY", "NAT", "ANA", "A-A", "TNN"])
        post = "".join(wr.choice("ACGT") for _ in range(3 * wr.randint(0, 3)))
        cs.append(tr(next(n), (pre + bad + post).encode(), k % 3 != 2, "translate-refused-late"))
        cs.append(tr(next(n), pre.encode(), wr.random() < 0.5, "translate-after-refusal"))
    for ch in gen.SYMS32:                 # every accepted character, every form
        for rev in (False, True):
            cs.append(comp(next(n), ch.encode(), rev, "complement-symbol"))
            for hard in (False, True):
                cs.append(ecomp(next(n), ch.encode(), hard, rev, "ecomplement-symbol"))
    for _ in range(40 if ctx.tier == "quick" else 400):
        s = gen.rand_seq(rng, rng.randint(1, 60), gen.SYMS32).encode()
        rev = rng.random() < 0.5
        cs.append(comp(next(n), s, rev, "complement-random"))
        cs.append(ecomp(next(n), s, rng.random() < 0.5, rev, "ecomplement-random"))
    return cs
