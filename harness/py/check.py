#!/usr/bin/env python3
"""Entry point of the gofasta verification checks.  See /verif/DESIGN.md section 1.1."""
import argparse
import collections
import hashlib
import importlib
import json
import os
import sys
import time

sys.path.insert(0, os.path.dirname(os.path.abspath(__file__)))
import common as cm  # noqa: E402


def setup():
    log = lambda m: sys.stderr.write("[setup] %s\n" % m)
    res = cm.build_harness(log)
    if any(rc != 0 for rc, _ in res.values()):
        return 1
    if not cm.regen_tables(log):
        return 1
    if hasattr(cm, "regen_sites"):
        cm.regen_sites(log)
    rc, out = cm.sh("coq_makefile -f _CoqProject -o Makefile", cwd=cm.COQ, timeout=120)
    ok, out = cm.coq_make([], log, timeout=7000)
    sys.stderr.write(out[-3000:] + "\n")
    return 0 if ok else 1


def run_differential(ctx, mod, cases):
    """Go side, then model+spec inside Coq.  Returns (verdicts, observations)."""
    obs = cm.go_run([c["go"] for c in cases], ctx.log)
    items = [(c["id"], c["coq"](obs[c["id"]])) for c in cases]
    verdicts = cm.coq_verdicts(ctx.pid, mod.IMPORTS, mod.CHECK_FN, items, ctx.log)
    return verdicts, obs


def case_payload(c, obs, verdict):
    o = dict(obs)
    return {"case": c["go"], "sample": c.get("sample"), "go_observation": o, "coq_verdict": verdict,
            "case_sha1": hashlib.sha1(json.dumps(c["go"], sort_keys=True).encode()).hexdigest(),
            "meta": c.get("meta")}


def generic_check(ctx, mod):
    """The default decision procedure of a property (DESIGN.md 1.1)."""
    res = cm.build_harness(ctx.log)
    if any(rc != 0 for rc, _ in res.values()):
        cm.violation(ctx, "harness-build", {"what": "the verification harness no longer builds against /repo",
                                            "log": {k: v[1][-2000:] for k, v in res.items() if v[0] != 0}},
                     no_failing_input=True)
        cm.write_evidence(ctx, {"obligations": 1, "discharged": 0, "assumptions": {}, "theorems": []},
                          {"evaluations": 0}, ["harness did not build"])
        return
    cm.regen_tables(ctx.log)
    cm.regen_sites(ctx.log)
    if hasattr(mod, "pre_build"):
        mod.pre_build(ctx)
    okm, outm = cm.coq_make(["theories/Check_%s.vo" % ctx.pid], ctx.log)
    if not okm:
        raise RuntimeError("the model cone theories/Check_%s.vo does not compile" % ctx.pid)
    obl = cm.check_obligations(ctx.pid, ctx.log)
    bad_axioms = sorted({a for v in obl["assumptions"].values() for a in v
                         if a.split(".")[-1] not in {x.split(".")[-1] for x in cm.ALLOWED_AXIOMS}
                         and not a.startswith(("Uint63", "PrimInt63", "PrimFloat", "Float"))})
    # correspondence (also the search for a failing input when an obligation broke)
    corpus = mod.corpus(ctx) if hasattr(mod, "corpus") else []
    cases = corpus + mod.generate(ctx)
    for i, c in enumerate(cases):          # ids must be unique and dense
        c["id"] = i
        c["go"]["id"] = i
    t1 = time.time()
    verdicts, obs = run_differential(ctx, mod, cases)
    failing = [c for c in cases if verdicts[c["id"]] == 1]
    if hasattr(mod, "post_go"):           # generator-side oracle, independent of the Coq model
        failing += [c for c in mod.post_go(ctx, cases, obs) if c not in failing]
    tie = [c for c in cases if verdicts[c["id"]] == 2]
    for c in failing[:5]:
        cm.violation(ctx, "failing-input", case_payload(c, obs[c["id"]], 1))
    if not failing and tie:
        for c in tie[:3]:
            p = case_payload(c, obs[c["id"]], 2)
            p["what"] = ("correspondence broken: the implementation and the Coq model disagree on this case, "
                         "while the implementation's output still meets the executable spec")
            cm.violation(ctx, "correspondence", p, no_failing_input=True)
    if not obl["ok"] and not failing:
        cm.violation(ctx, "proof-obligation",
                     {"what": "a proof obligation of Properties_%s.v no longer checks; no input on which the "
                              "implementation violates the spec was found among %d cases" % (ctx.pid, len(cases)),
                      "failed": obl["failed"], "coq_log": obl["log"][-3000:]}, no_failing_input=True)
    if bad_axioms:
        cm.violation(ctx, "axioms", {"what": "theorems depend on axioms outside the declared trusted base",
                                     "axioms": bad_axioms}, no_failing_input=True)
    if hasattr(mod, "extra"):
        mod.extra(ctx, obl, cases, obs)
    kinds = collections.Counter(c["meta"].get("kind", "?") for c in cases)
    status = collections.Counter(obs[c["id"]]["status"] for c in cases)
    distinct = {hashlib.sha1(json.dumps(c["go"], sort_keys=True).encode()).hexdigest()
                for c in cases if c["meta"].get("nontrivial")}
    cov = {
        "evaluations": len(cases),
        "distinct_nontrivial": len(distinct),
        "rule": getattr(mod, "RULE", "generated cases; see harness/py/props/%s.py" % ctx.pid),
        "samples": [c.get("sample") for c in cases[:2]] + [c.get("sample") for c in cases[-1:]],
        "input_distribution": dict(kinds),
        "outcome_classes": dict(status),
        "correspondence_disagreements": len(tie),
        "spec_violations": len(failing),
        "differential_wall_s": round(time.time() - t1, 2),
    }
    if hasattr(mod, "coverage_extra"):
        cov.update(mod.coverage_extra(ctx))
    cm.write_evidence(ctx, obl, cov, getattr(mod, "ASSUMPTIONS", []))


def main():
    ap = argparse.ArgumentParser()
    ap.add_argument("pid", nargs="?")
    ap.add_argument("--tier", default=os.environ.get("VERIF_TIER", "quick"))
    ap.add_argument("--setup", action="store_true")
    ap.add_argument("--replay")
    a = ap.parse_args()
    if a.setup:
        sys.exit(setup())
    if a.replay:
        import replay
        sys.exit(replay.main(a.replay))
    seed = int(os.environ.get("VERIF_SEED", "1"))
    tier = a.tier if a.tier in ("quick", "thorough") else "quick"
    ctx = cm.Ctx(a.pid, tier, seed)
    mod = importlib.import_module("props." + a.pid)
    try:
        if hasattr(mod, "check"):
            mod.check(ctx)
        else:
            generic_check(ctx, mod)
    except Exception as e:  # the machinery itself failed: the property is not shown to hold
        import traceback
        traceback.print_exc()
        cm.violation(ctx, "machinery-error", {"what": "check machinery failed: %r" % (e,)}, no_failing_input=True)
        try:
            cm.write_evidence(ctx, {"obligations": 1, "discharged": 0, "assumptions": {}, "theorems": []},
                              {"evaluations": 0, "error": repr(e)}, [])
        except Exception:
            pass
    sys.exit(1 if ctx.violations else 0)


if __name__ == "__main__":
    main()
