"""Whole annotation files through genbank.ReadGenBank / gff.ReadGFF against the byte-level Coq models GenbankFile.v (read_genbank)
and GffFile.v (read_gff): files written section by section (LOCUS ... FEATURES ... ORIGIN ... //; ##gff-version, ##sequence-region,
comments, rows, ##FASTA), with LF / CRLF line ends, blank lines, locations wrapped over several lines, and a malformed stream (text
before the first section, a section met twice, no FEATURES or no ORIGIN, directives missing / malformed / after the rows, rows that
featureFromLine refuses, a sequence section the list reader refuses).  A file written from well-formed parts must be read back as
those parts (the statement-level check); every file must be read as the model reads it (the tie)."""
import common as cm
import gblayer
import gfflayer


def eol(rng, crlf):
    return "\r\n" if crlf else "\n"


def wrap_location(rng, loc):
    """cut a location after a comma, as a flat file does when it is too long for the line"""
    cuts = [i + 1 for i, c in enumerate(loc) if c == "," and i + 1 < len(loc)]
    if not cuts or rng.random() < 0.4:
        return [loc]
    k = sorted(rng.sample(cuts, rng.randint(1, min(2, len(cuts)))))
    out, prev = [], 0
    for c in k:
        out.append(loc[prev:c])
        prev = c
    out.append(loc[prev:])
    return out


def good_features(rng):
    """a FEATURES block with wrapped locations; returns lines and the expected serialisation"""
    lines, exp = [], ""
    for _ in range(rng.randint(1, 4)):
        k = rng.choice(gblayer.KEYS)
        loc = rng.choice(["1..9", "join(1..5,7..9)", "complement(join(3..8,12..20))", "join(1..5,7..9,11..13,20..30)",
                          "join(complement(20..30),complement(3..8))"])
        parts = wrap_location(rng, loc)
        lines.append("     %-15s %s" % (k, parts[0]))
        for p in parts[1:]:
            lines.append("                     " + p)
        quals = {}
        for _ in range(rng.randint(1, 4)):
            q = rng.choice(["gene", "codon_start", "translation", "note", "product", "db_xref"])
            quoted = rng.random() < 0.7
            v = rng.choice(["abc", "two words", "MKV*", "x:1"]) if quoted else rng.choice(["1", "2", "experimental"])
            lines.append("                     /%s=%s" % (q, '"%s"' % v if quoted else v))
            quals[q] = v
        exp += "#%d:%s%d:%s" % (len(k), k, len(loc), loc) + "".join("|%d:%s%d:%s" % (len(q), q, len(quals[q]), quals[q]) for q in sorted(quals))
    return lines, exp


def origin_lines(rng, g):
    lines = []
    for i in range(0, len(g), 60):
        chunk = g[i:i + 60]
        lines.append("%9d %s" % (i + 1, " ".join(chunk[j:j + 10] for j in range(0, len(chunk), 10))))
    return lines


def other_sections(rng):
    secs = []
    for _ in range(rng.randint(0, 4)):
        h = rng.choice(["LOCUS       X 120 bp DNA", "DEFINITION  a test record.", "ACCESSION   X", "VERSION     X.1", "KEYWORDS    .", "SOURCE      virus",
                        "REFERENCE   1  (bases 1 to 120)", "COMMENT     free text", "Z"])
        body = ["  ORGANISM  virus", "            Viruses; Riboviria.", "  AUTHORS   A,B.", "            1..9 /gene=\"x\"", "  origin", "     features x"]
        secs.append([h] + [rng.choice(body) for _ in range(rng.randint(0, 3))])
    return secs


def genbank_file(rng):
    """returns (bytes, expected or None)"""
    good = rng.random() < 0.5
    crlf = rng.random() < 0.3
    g = "".join(rng.choice("acgt") for _ in range(rng.randint(1, 150)))
    flines, fexp = good_features(rng) if good or rng.random() < 0.5 else (gblayer.block(rng), None)
    pre = other_sections(rng)
    lines = [l for s in pre for l in s]
    lines.append("FEATURES             Location/Qualifiers")
    lines += flines
    lines.append("ORIGIN" + rng.choice(["", "      "]))
    lines += origin_lines(rng, g)
    lines.append("//")
    exp = None
    if good and fexp is not None:
        exp = "F" + fexp + "O%d:%s" % (len(g), g)
        # blank lines change nothing
        for _ in range(rng.randint(0, 2)):
            lines.insert(rng.randint(0, len(lines)), "")
    else:
        k = rng.randint(0, 8)
        if k == 0:
            lines.insert(0, "     stray line before any section")
        elif k == 1:
            lines = [l for l in lines if not l.startswith("ORIGIN")]
        elif k == 2:
            lines = [l for l in lines if not l.startswith("FEATURES")]
        elif k == 3:
            lines += ["FEATURES             Location/Qualifiers"] + gblayer.block(rng)
        elif k == 4:
            lines = [l.lower() if l[:1].isupper() and rng.random() < 0.5 else l for l in lines]
        elif k == 5:
            lines.insert(rng.randint(0, len(lines)), rng.choice(["   ", "\t", "X", "ORIGIN", "features"]))
        elif k == 6:
            lines = []
        elif k == 7:
            lines = [l for l in lines if l[:1] == " " or l[:1] == "/"]
        else:
            lines.insert(rng.randint(0, len(lines)), "")
    data = "".join(l + (eol(rng, crlf and rng.random() < 0.8)) for l in lines)
    if lines and rng.random() < 0.15:
        data = data.rstrip("\r\n")            # no newline after the last line
    return data.encode("latin1"), exp


def gff_file(rng):
    good = rng.random() < 0.5
    crlf = rng.random() < 0.3
    lines = ["##gff-version 3"]
    regs = {}
    if rng.random() < 0.6:
        rid = rng.choice(["ref", "NC_045512.2"])
        a, b = 1, rng.randint(1, 400)
        lines.append("##sequence-region %s %d %d" % (rid, a, b))
        regs[rid] = (a, b)
    if rng.random() < 0.4:
        lines.append(rng.choice(["#a comment", "#!genome-build x", "# ##FASTA"]))
    rows, exps = [], []
    for _ in range(rng.randint(0 if not good else 1, 5)):
        if good or rng.random() < 0.7:
            r, e = gfflayer.good_row(rng)
        else:
            r, e = gfflayer.bad_row(rng), None
        if r and not r.startswith("#") and "\n" not in r:
            rows.append(r)
            exps.append(e)
    lines += rows
    fasta = {}
    if rng.random() < 0.7:
        lines.append("##FASTA")
        for i in range(rng.randint(1, 2) if not good else 1):
            rid = "ref%d" % i
            s = "".join(rng.choice("ACGTNacgtRY-") for _ in range(rng.randint(1, 90)))
            lines.append(">" + rid + rng.choice(["", " some description"]))
            for j in range(0, len(s), 60):
                lines.append(s[j:j + 60])
            fasta[rid] = s.upper()
    exp = None
    if good and all(e is not None for e in exps):
        exp = "V1:3R" + "".join("%d:%s%d:%d%d:%d" % (len(k), k, len(str(v[0])), v[0], len(str(v[1])), v[1]) for k, v in sorted(regs.items()))
        exp += "F" + "".join("#" + e for e in exps)
        exp += "A" + ("".join("%d:%s%d:%s" % (len(k), k, len(v), v) for k, v in sorted(fasta.items())) if fasta else "-")
    else:
        k = rng.randint(0, 9)
        if k == 0:
            lines = lines[1:]
        elif k == 1:
            lines[0] = rng.choice(["##gff-version", "##gff-version 3 1", "## gff-version 3", "##gff-version\t3"])
        elif k == 2:
            lines.insert(1, rng.choice(["##sequence-region ref 1", "##sequence-region ref a 10", "##sequence-region ref 1 x", "##sequence-region ref 1 10 extra",
                                        "##sequence-region other 1 20", "##sequence-region ref 1 99"]))
        elif k == 3:
            lines.insert(rng.randint(0, len(lines)), "")
        elif k == 4 and rows:
            lines.append("##sequence-region late 1 5")
        elif k == 5 and fasta:
            lines.append(">short")
            lines.append("AC")
        elif k == 6 and fasta:
            lines.append("ACJT")
        elif k == 7:
            lines = [l for l in lines if not l.startswith(">")]
        elif k == 8:
            lines.insert(rng.randint(0, len(lines)), "##FASTA")
        else:
            lines.insert(rng.randint(1, len(lines)), rng.choice(["#", "##", "###", "##FASTAX", " ##FASTA"]))
    data = "".join(l + (eol(rng, crlf and rng.random() < 0.8)) for l in lines)
    if lines and rng.random() < 0.15:
        data = data.rstrip("\r\n")
    return data.encode("latin1"), exp


def run_one(ctx, n, maker, op, check_fn, label, reader):
    rng = ctx.rng
    items = [maker(rng) for _ in range(n)]
    cases = [{"id": i, "op": op, "file": cm.b64(b)} for i, (b, _) in enumerate(items)]
    obs = cm.go_run(cases, ctx.log)
    bad, classes = [], {}
    for i, (b, exp) in enumerate(items):
        st = "panic" if obs[i]["status"] == "crash" else obs[i]["status"]
        classes[st] = classes.get(st, 0) + 1
        if exp is None:
            continue
        got = cm.unb64(obs[i]["out"]).decode("latin1") if obs[i]["status"] == "ok" else "<%s: %s>" % (obs[i]["status"], obs[i].get("err", "")[:80])
        if got != exp:
            bad.append({"file": b.decode("latin1"), "read_by_" + reader: got[:500], "written_from": exp[:500]})
    verdicts = cm.coq_verdicts(ctx.pid, ["Base", "FastaModel", "Harness", "GenbankFile", "GffFile", "Check_AnnoFile"], check_fn,
                               [(i, "(%s, %s)" % (cm.cbytes(b), cm.cgores(obs[i]))) for i, (b, _) in enumerate(items)], ctx.log, tag=label)
    mism = [{"file": items[i][0].decode("latin1"), reader: obs[i]["status"] + ":" + cm.unb64(obs[i].get("out", "")).decode("latin1")[:300]}
            for i, v in verdicts.items() if v != 0]
    for b in bad[:3]:
        cm.violation(ctx, "failing-input", dict(b, what="a well-formed %s file is not read back as the parts it was written from" % label))
    if mism and not bad:
        for b in mism[:3]:
            cm.violation(ctx, "model-mismatch", dict(b, what="the Coq model of %s and the code disagree on this file; no well-formed file was read wrongly" % reader),
                         no_failing_input=True)
    return {label + "_files": len(items), label + "_files_written_from_parts": sum(1 for _, e in items if e is not None),
            label + "_file_outcomes": classes, label + "_file_model_mismatches": len(mism)}


def run(ctx, n):
    out = {}
    out.update(run_one(ctx, n, genbank_file, "gbfile", "check_gbfile", "genbank", "genbank.ReadGenBank"))
    out.update(run_one(ctx, n, gff_file, "gfffile", "check_gfffile", "gff", "gff.ReadGFF"))
    return out
