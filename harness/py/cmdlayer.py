"""The command-line layer (cmd/*.go): every command run through the built binary on generated inputs, its bytes compared with
the library entry point the Coq models are compared with, plus the option reconciliation each command does itself (stdin,
legacy flags, option files, case-insensitive values).  Go against Go; a difference is a failing input."""
import os
import shutil
import tempfile

import common as cm
import gen
import anno
import samgen
import udgen
import vcommon


class Layer:
    def __init__(self, ctx):
        self.ctx = ctx
        self.binp = cm.build_binary(ctx.log)
        self.tmp = tempfile.mkdtemp(prefix="verif-cmd-")
        self.runs = 0
        self.failed = False
        if not self.binp:
            cm.violation(ctx, "binary-build", {"what": "gofasta does not build"}, no_failing_input=True)
            self.failed = True

    def close(self):
        shutil.rmtree(self.tmp, ignore_errors=True)

    def W(self, name, data):
        p = os.path.join(self.tmp, name)
        open(p, "wb").write(data)
        return p

    def lib(self, case):
        return cm.go_run([dict(case, id=0)], self.ctx.log)[0]

    def same(self, what, argv, libcase, stdin=None, files=None, postprocess=None):
        """binary(argv) must succeed and print exactly what the library entry point prints for libcase."""
        if self.failed:
            return None
        r = cm.run_binary(self.binp, argv, stdin=stdin, timeout=60)
        l = self.lib(libcase)
        self.runs += 1
        out = r[2]
        exp = cm.unb64(l.get("out", "")) if l["status"] == "ok" else None
        if postprocess:
            exp = postprocess(exp) if exp is not None else None
        if r[0] != "ok" or exp is None or out != exp:
            self.failed = True
            cm.violation(self.ctx, "failing-input", {
                "what": "%s: the binary's output differs from the library entry point's" % what,
                "argv": [os.path.basename(a) if a.startswith(self.tmp) else a for a in argv],
                "files": {os.path.basename(f): open(f, "rb").read().decode("latin1")[:3000] for f in (files or [])},
                "binary": [r[0], out.decode("latin1")[:800], r[3].decode("latin1")[-300:]],
                "library": [l["status"], (exp or b"").decode("latin1")[:800], l.get("err", "")[:300]]})
        return out

    def to_existing_file(self, what, argv, opt="-o", stdin=None):
        """the command's own output option naming a file that already exists and is LONGER than the new output: the file
        must end up holding exactly what the command prints on stdout."""
        if self.failed:
            return
        a = cm.run_binary(self.binp, argv, stdin=stdin, timeout=60)
        path = os.path.join(self.tmp, "existing_output.txt")
        open(path, "wb").write(b"stale line of an earlier, longer run\n" * 40 + a[2] + a[2])
        b = cm.run_binary(self.binp, argv + [opt, path], stdin=stdin, timeout=60)
        self.runs += 2
        got = open(path, "rb").read() if os.path.exists(path) else b""
        if a[0] != "ok" or b[0] != "ok" or got != a[2]:
            self.failed = True
            strip = lambda av: [os.path.basename(x) if x.startswith(self.tmp) else x for x in av]
            cm.violation(self.ctx, "failing-input", {
                "what": "%s: %s FILE over an existing, longer file does not leave exactly the command's output in it" % (what, opt),
                "argv": strip(argv + [opt, path]), "stdout_run": [a[0], a[2].decode("latin1")[:600]],
                "file_after_the_run": got.decode("latin1")[:1200], "status": b[0], "stderr": b[3].decode("latin1")[-300:]})

    def spelled(self, what, argv, flags, stdin=None, files=None):
        """pflag's boolean syntax: --flag=true is --flag, and --flag=false (=0, =F) is the flag left out."""
        for fl in flags:
            if fl in argv:
                alt = [a if a != fl else fl + "=" + self.ctx.rng.choice(["true", "1", "T"]) for a in argv]
                self.equal_runs("%s: %s spelled %s is not %s" % (what, fl, [a for a in alt if a.startswith(fl + "=")][0], fl), argv, alt, stdin_a=stdin, stdin_b=stdin, files=files)
            else:
                val = self.ctx.rng.choice(["false", "0", "F"])
                self.equal_runs("%s: %s=%s is not the same as leaving %s out" % (what, fl, val, fl), argv, argv + [fl + "=" + val], stdin_a=stdin, stdin_b=stdin, files=files)

    def equal_runs(self, what, argv_a, argv_b, stdin_a=None, stdin_b=None, files=None):
        """two invocations that must behave alike (same class, same bytes)."""
        if self.failed:
            return
        a = cm.run_binary(self.binp, argv_a, stdin=stdin_a, timeout=60)
        b = cm.run_binary(self.binp, argv_b, stdin=stdin_b, timeout=60)
        self.runs += 2
        if a[0] != b[0] or a[2] != b[2]:
            self.failed = True
            strip = lambda argv: [os.path.basename(x) if x.startswith(self.tmp) else x for x in argv]
            cm.violation(self.ctx, "failing-input", {
                "what": what, "argv_a": strip(argv_a), "argv_b": strip(argv_b),
                "files": {os.path.basename(f): open(f, "rb").read().decode("latin1")[:3000] for f in (files or [])},
                "a": [a[0], a[2].decode("latin1")[:800], a[3].decode("latin1")[-300:]],
                "b": [b[0], b[2].decode("latin1")[:800], b[3].decode("latin1")[-300:]]})


def snps_layer(ctx, n=2):
    L = Layer(ctx)
    rng = ctx.rng
    try:
        for k in range(n):
            w = rng.choice([10, 40])
            ref = gen.rand_seq(rng, w, gen.SYMS17 if rng.random() < 0.3 else "ACGT")
            recs = [("s%d" % i, gen.mutate(rng, ref, p_amb=0.1, p_gap=0.08)) for i in range(rng.randint(1, 5))]
            refb, alnb = gen.layout(rng, [("r", ref)], "plain"), gen.layout(rng, recs)
            rp, ap = L.W("ref%d.fasta" % k, refb), L.W("aln%d.fasta" % k, alnb)
            for hard in (False, True):
                hg = ["--hard-gaps"] if hard else []
                base = {"op": "snps", "ref": cm.b64(refb), "aln": cm.b64(alnb), "hard": hard}
                L.same("snps %s" % " ".join(hg), ["snps", "-r", rp, "-q", ap] + hg, base, files=[rp, ap])
                L.same("snps %s, query on stdin" % " ".join(hg), ["snps", "-r", rp] + hg, base, stdin=alnb, files=[rp, ap])
                thr = rng.choice([0.0, 0.5, 1.0])
                L.same("snps --aggregate --threshold %r" % thr, ["snps", "-r", rp, "-q", ap, "--aggregate", "--threshold", repr(thr)] + hg,
                       dict(base, aggregate=True, threshold=thr), files=[rp, ap])
                L.to_existing_file("snps", ["snps", "-r", rp, "-q", ap] + hg)
                L.spelled("snps", ["snps", "-r", rp, "-q", ap] + hg, ["--hard-gaps", "--aggregate"], files=[rp, ap])
                op = L.W("out%d.csv" % k, b"")
                L.equal_runs("snps -o FILE then the file's content vs stdout", ["snps", "-r", rp, "-q", ap] + hg, ["snps", "-r", rp, "-q", ap] + hg, files=[rp, ap])
                r = cm.run_binary(L.binp, ["snps", "-r", rp, "-q", ap, "-o", op] + hg)
                r0 = cm.run_binary(L.binp, ["snps", "-r", rp, "-q", ap] + hg)
                L.runs += 2
                if not L.failed and (r[0] != r0[0] or open(op, "rb").read() != r0[2]):
                    L.failed = True
                    cm.violation(ctx, "failing-input", {"what": "snps -o FILE writes something else than snps prints on stdout", "argv": ["snps", "-r", "ref", "-q", "aln", "-o", "FILE"] + hg,
                                                        "files": {"ref": refb.decode(), "aln": alnb.decode()}, "file": open(op, "rb").read().decode("latin1")[:600], "stdout": r0[2].decode("latin1")[:600]})
        return L.runs
    finally:
        L.close()


def updown_layer(ctx, which, n=2):
    """which = 'list' (C10) or 'topranking' (C08, C09)."""
    L = Layer(ctx)
    rng = ctx.rng
    try:
        for k in range(n):
            ref, queries, targets = udgen.make_inputs(rng)
            refb = gen.layout(rng, [("ref", ref)], "plain")
            qb, tb = gen.layout(rng, queries, "plain"), gen.layout(rng, targets, rng.choice(["plain", "wrap"]))
            rp, qp, tp = L.W("ref%d.fasta" % k, refb), L.W("q%d.fasta" % k, qb), L.W("t%d.fasta" % k, tb)
            if which == "list":
                for data, p in ((qb, qp), (tb, tp)):
                    L.same("updown list", ["updown", "list", "-r", rp, "-q", p], {"op": "updown_list", "ref": cm.b64(refb), "aln": cm.b64(data)}, files=[rp, p])
                    L.same("updown list, query on stdin", ["updown", "list", "-r", rp], {"op": "updown_list", "ref": cm.b64(refb), "aln": cm.b64(data)}, stdin=data, files=[rp, p])
                    L.to_existing_file("updown list", ["updown", "list", "-r", rp, "-q", p])
                continue
            o = udgen.random_opts(rng, len(targets))
            o["ignore"] = []
            ids = [nm for nm, _ in targets]
            rng.shuffle(ids)
            ign = ids[:rng.randint(0, min(3, len(ids)))]
            # the --ignore FILE is read by the command itself: one ID per line, here with a trailing blank line or CRLF at random
            eol = rng.choice(["\n", "\n", "\r\n"])
            ip = L.W("ignore%d.txt" % k, ("".join(i + eol for i in ign) + rng.choice(["", eol])).encode())
            flags = []
            for key, flag in (("sizetotal", "--size-total"), ("sizeup", "--size-up"), ("sizedown", "--size-down"), ("sizeside", "--size-side"), ("sizesame", "--size-same"),
                              ("distall", "--dist-all"), ("distup", "--dist-up"), ("distdown", "--dist-down"), ("distside", "--dist-side"), ("distpush", "--dist-push")):
                if o[key]:
                    flags += [flag, str(o[key])]
            flags += ["--threshold-pair", repr(o["threshpair"]), "--threshold-target", str(o["threshtarg"])]
            if o["nofill"]:
                flags.append("--no-fill")
            if o["table"]:
                flags.append("--table")
            base = dict({"op": "topranking", "ref": cm.b64(refb), "query": cm.b64(qb), "target": cm.b64(tb), "qtype": "fasta", "ttype": "fasta"}, **o)
            L.same("updown topranking (fasta/fasta)", ["updown", "topranking", "-r", rp, "-q", qp, "-t", tp] + flags, base, files=[rp, qp, tp])
            if k == 0:
                L.to_existing_file("updown topranking", ["updown", "topranking", "-r", rp, "-q", qp, "-t", tp] + flags)
            L.spelled("updown topranking", ["updown", "topranking", "-r", rp, "-q", qp, "-t", tp] + flags, ["--table", "--no-fill"], files=[rp, qp, tp])
            # every --size-X / --dist-X option on its own and in unequal pairs: each value reaches the bin it names
            zero = dict(o, sizetotal=0, sizeup=0, sizedown=0, sizeside=0, sizesame=0, distall=0, distup=0, distdown=0, distside=0, distpush=0, table=True, nofill=False, ignore=[])
            names = {"sizeup": "--size-up", "sizedown": "--size-down", "sizeside": "--size-side", "sizesame": "--size-same",
                     "distup": "--dist-up", "distdown": "--dist-down", "distside": "--dist-side"}
            combos = [{"distup": 1, "distdown": 1, "distside": 3}, {"distup": 3, "distdown": 3, "distside": 1}, {"distup": 2, "distdown": 1, "distside": 1},
                      {"sizeup": 1, "sizedown": 2, "sizeside": 3, "sizesame": 1}, {"sizeup": 3, "sizedown": 1, "sizeside": 2, "sizesame": 2}]
            cref, cqs, cts = udgen.make_inputs_crowded(rng, {"up": 5, "down": 6, "side": 6, "same": 3})     # every bin holds targets at several distances
            crefb, cqb, ctb = gen.layout(rng, [("ref", cref)], "plain"), gen.layout(rng, cqs, "plain"), gen.layout(rng, cts, "plain")
            crp, cqp, ctp = L.W("cref%d.fasta" % k, crefb), L.W("cq%d.fasta" % k, cqb), L.W("ct%d.fasta" % k, ctb)
            for combo in (combos if k == 0 else [rng.choice(combos)]):
                oo = dict(zero, **combo)
                fl = [x for key, val in combo.items() for x in (names[key], str(val))] + ["--threshold-pair", repr(o["threshpair"]), "--threshold-target", str(o["threshtarg"]), "--table"]
                L.same("updown topranking %s" % " ".join(fl[:2 * len(combo)]), ["updown", "topranking", "-r", crp, "-q", cqp, "-t", ctp] + fl,
                       dict({"op": "topranking", "ref": cm.b64(crefb), "query": cm.b64(cqb), "target": cm.b64(ctb), "qtype": "fasta", "ttype": "fasta"}, **oo), files=[crp, cqp, ctp])
            if eol == "\n" and ign:
                L.same("updown topranking --ignore FILE", ["updown", "topranking", "-r", rp, "-q", qp, "-t", tp, "--ignore", ip] + flags,
                       dict(base, ignore=ign), files=[rp, qp, tp, ip])
        return L.runs
    finally:
        L.close()


def variants_layer(ctx, n=2):
    L = Layer(ctx)
    rng = ctx.rng
    try:
        for k in range(n):
            genome, feats, ref_row, rows = vcommon.random_setup(rng, mod3_segments=True)
            while not feats:
                genome, feats, ref_row, rows = vcommon.random_setup(rng, mod3_segments=True)
            msa, _ = vcommon.build_msa(rng, ref_row, rows, refpos=rng.choice(["first", "middle"]), style="plain")
            mp = L.W("m%d.fasta" % k, msa)
            for suffix in ("gb", "gff"):
                annob = anno.render_genbank(genome, feats, rng) if suffix == "gb" else anno.render_gff(genome, feats, mix=rng)
                ap = L.W("a%d.%s" % (k, suffix), annob)
                for wi, (s, e) in enumerate([(-1, -1), (1, -1), (-1, len(genome) // 2), (2, len(genome) - 1)]):       # no window, each bound alone, both
                    append = (wi + k) % 2 == 1
                    win = (["--start", str(s)] if s != -1 else []) + (["--end", str(e)] if e != -1 else [])
                    base = {"op": "variants", "msa": cm.b64(msa), "refid": "REF", "anno": cm.b64(annob), "suffix": suffix, "start": s, "end": e,
                            "append_snps": append, "threads": 2}
                    argv = ["variants", "--msa", mp, "-r", "REF", "-a", ap] + (["--append-snps"] if append else []) + win
                    L.same("variants (%s)" % suffix, argv, base, files=[mp, ap])
                    if k == 0 and not append:
                        L.to_existing_file("variants", argv)
                    if k == 0:
                        L.spelled("variants", argv, ["--append-snps", "--aggregate"], files=[mp, ap])
                    thr = rng.choice([0.0, 0.5])
                    L.same("variants --aggregate (%s)" % suffix, argv + ["--aggregate", "--threshold", repr(thr)], dict(base, aggregate=True, threshold=thr), files=[mp, ap])
                    # the alignment on stdin: with -r (the reference is then the first record of the stream) and without
                    # (the reference comes from the annotation and every record of the stream is a query)
                    msa_first, _ = vcommon.build_msa(rng, ref_row, rows, refpos="first", style="plain")
                    mfp = L.W("mf%d.fasta" % k, msa_first)
                    a_first = ["variants", "--msa", mfp, "-r", "REF", "-a", ap] + (["--append-snps"] if append else []) + win
                    L.equal_runs("variants: the alignment on stdin equals --msa FILE (-r given)", a_first, a_first[:1] + a_first[3:], stdin_b=msa_first, files=[mfp, ap])
                    a_agg = a_first + ["--aggregate"]
                    L.equal_runs("variants --aggregate: the alignment on stdin equals --msa FILE (-r given)", a_agg, a_agg[:1] + a_agg[3:], stdin_b=msa_first, files=[mfp, ap])
                    if True:
                        _, rows_ni = anno.make_msa(rng, genome, rng.randint(2, 4), with_insertions=False)
                        noref = gen.layout(rng, [("q%d" % i, r) for i, r in enumerate(rows_ni)], "plain")
                        nrp = L.W("nr%d.fasta" % k, noref)
                        for agg in ([], ["--aggregate"]):
                            a_nr = ["variants", "--msa", nrp, "-a", ap] + (["--append-snps"] if append else []) + win + agg
                            L.equal_runs("variants: the alignment on stdin equals --msa FILE (reference from the annotation)", a_nr, a_nr[:1] + a_nr[3:], stdin_b=noref, files=[nrp, ap])
                    if suffix == "gb":
                        L.equal_runs("variants: the legacy --genbank FILE equals --annotation FILE.gb", argv,
                                     ["variants", "--msa", mp, "-r", "REF", "--genbank", ap] + (["--append-snps"] if append else []) + win, files=[mp, ap])
        return L.runs
    finally:
        L.close()


def _sam_inputs(rng):
    Lg = rng.choice([30, 45])
    feats = []
    while not feats:
        genome = gen.rand_seq(rng, Lg)
        feats = anno.random_features(rng, Lg, max_feats=2, mod3_segments=True)
        genome, feats = anno.patch_stops(rng, genome, feats)
    recs = []
    for qi in range(rng.randint(1, 3)):
        q = samgen.make_query_topa(rng, genome, "q%d" % qi)
        for r in q:
            r["cigar"] = [(o, l) for o, l in r["cigar"] if o not in "NP"] or [("M", 1)]
            r["seq"] = samgen.build_seq(rng, r["cigar"], r["pos"], gen.mutate(rng, genome, p_sub=0.2, p_amb=0, p_gap=0, p_lower=0))
        if not samgen.nonconflicting(q):
            q = q[:1]
        recs += q
    # one query aligned end to end and well diverged: coding changes, so that every reporting option has something to show
    full = [("M", Lg // 2), ("I", 2), ("M", Lg - Lg // 2)] if rng.random() < 0.5 else [("M", Lg)]
    recs.append({"name": "qfull", "flag": 0, "pos": 0, "cigar": full,
                 "seq": samgen.build_seq(rng, full, 0, gen.mutate(rng, genome, p_sub=0.25, p_amb=0, p_gap=0, p_lower=0))})
    # ... and one that differs from the reference at its first and at its last base (and nowhere else): every window that leaves
    # out an end of the reference leaves out a mutation
    ends = list(genome)
    ends[0] = "A" if genome[0] != "A" else "C"
    ends[-1] = "A" if genome[-1] != "A" else "C"
    recs.append({"name": "qends", "flag": 0, "pos": 0, "cigar": [("M", Lg)], "seq": "".join(ends)})
    return Lg, genome, feats, recs


def sam_layer(ctx, which, n=2):
    """which = 'toma' (C01), 'topa' (C02), 'variants' (C11)."""
    L = Layer(ctx)
    rng = ctx.rng
    try:
        for k in range(n):
            Lg, genome, feats, recs = _sam_inputs(rng)
            samb = samgen.render_sam("REF", Lg, recs)
            refb = gen.layout(rng, [("REF", genome)], "plain")
            sp, rp = L.W("a%d.sam" % k, samb), L.W("ref%d.fasta" % k, refb)
            if which == "toma":
                for pad in (False, True):
                    wrap = rng.choice([0, 7])
                    s, e = rng.choice([(-1, -1), (2, Lg - 1), (1, -1)])
                    argv = ["sam", "toMultiAlign", "-s", sp] + (["--pad"] if pad else []) + (["--wrap", str(wrap)] if wrap else []) + \
                           (["--start", str(s)] if s != -1 else []) + (["--end", str(e)] if e != -1 else [])
                    base = {"op": "toma", "sam": cm.b64(samb), "pad": pad, "wrap": wrap, "start": s, "end": e, "threads": 2}
                    L.same("sam toMultiAlign", argv, base, files=[sp])
                    if k == 0 and not pad:
                        L.to_existing_file("sam toMultiAlign", argv, opt="--fasta-out")
                    if k == 0:
                        L.spelled("sam toMultiAlign", argv, ["--pad"], files=[sp])
                    L.same("sam toMultiAlign, SAM on stdin", argv[:2] + argv[4:], base, stdin=samb, files=[sp])
            elif which == "topa":
                # -o stdout: every pair, in input order, whatever the number of workers (a dozen queries, repeated runs)
                many = []
                for qi in range(12):
                    cig = [("M", Lg)] if qi % 3 else [("M", Lg // 2), ("I", 1 + qi % 2), ("M", Lg - Lg // 2)]
                    many.append({"name": "m%d" % qi, "flag": 0, "pos": 0, "cigar": cig, "seq": samgen.build_seq(rng, cig, 0, gen.mutate(rng, genome, p_sub=0.1, p_amb=0, p_gap=0, p_lower=0))})
                mp_ = L.W("many%d.sam" % k, samgen.render_sam("REF", Lg, many))
                for rep in range(5):
                    L.equal_runs("sam toPairAlign -o stdout: 4 workers vs 1 worker", ["sam", "toPairAlign", "-s", mp_, "-r", rp, "-o", "stdout", "-t", "1"],
                                 ["sam", "toPairAlign", "-s", mp_, "-r", rp, "-o", "stdout", "-t", "4"], files=[mp_, rp])
                if k == 0:
                    for fl in ([], ["--omit-reference"], ["--skip-insertions"]):
                        L.spelled("sam toPairAlign -o stdout", ["sam", "toPairAlign", "-s", sp, "-r", rp, "-o", "stdout"] + fl, ["--omit-reference", "--skip-insertions"], files=[sp, rp])
                names = [b[0]["name"] for b in samgen.blocks_of(recs)]
                files = [nm.replace("/", "_") + ".fasta" for nm in names]
                for ci, (omit_ref, omit_ins) in enumerate(((False, False), (True, False), (False, True), (True, True))):
                    # the four runs go into ONE directory, the longest output first: a file left by an earlier run is replaced, not overwritten in place
                    outdir = os.path.join(L.tmp, "pairs%d" % k)
                    os.makedirs(outdir, exist_ok=True)
                    argv = ["sam", "toPairAlign", "-s", sp, "-r", rp, "-o", outdir] + (["--omit-reference"] if omit_ref else []) + (["--skip-insertions"] if omit_ins else [])
                    r = cm.run_binary(L.binp, argv)
                    l = L.lib({"op": "topa", "sam": cm.b64(samb), "ref": cm.b64(refb), "files": files, "omit_ref": omit_ref, "omit_ins": omit_ins, "wrap": 0, "start": -1, "end": -1, "threads": 2})
                    L.runs += 1
                    got = b"".join(("==%s==\n" % f).encode() + open(os.path.join(outdir, f), "rb").read() for f in files if os.path.exists(os.path.join(outdir, f)))
                    if r[0] != "ok" or l["status"] != "ok" or got != cm.unb64(l["out"]):
                        cm.violation(ctx, "failing-input", {"what": "sam toPairAlign -o DIR: the files differ from the library entry point's", "argv": argv[:2] + ["..."] + argv[7:],
                                                            "files": {"a.sam": samb.decode(), "ref.fasta": refb.decode()}, "binary": [r[0], got.decode("latin1")[:800], r[3].decode("latin1")[-300:]],
                                                            "library": [l["status"], cm.unb64(l.get("out", "")).decode("latin1")[:800]]})
                        return L.runs
            else:
                suffix = rng.choice(["gb", "gff"])
                annob = anno.render_genbank(genome, feats, rng) if suffix == "gb" else anno.render_gff(genome, feats, mix=rng)
                ap = L.W("a%d.%s" % (k, suffix), annob)
                for wi, (s, e) in enumerate([(-1, -1), (1, -1), (-1, Lg // 2), (2, Lg - 1)]):       # no window, each bound alone, both
                    append = (wi + k) % 2 == 1
                    win = (["--start", str(s)] if s != -1 else []) + (["--end", str(e)] if e != -1 else [])
                    base = {"op": "samvariants", "sam": cm.b64(samb), "ref": cm.b64(refb), "anno": cm.b64(annob), "suffix": suffix, "ref_from_file": True,
                            "start": s, "end": e, "append_snps": append, "aggregate": False, "threads": 2}
                    argv = ["sam", "variants", "-s", sp, "-r", rp, "-a", ap] + (["--append-snps"] if append else []) + win
                    L.same("sam variants (%s)" % suffix, argv, base, files=[sp, rp, ap])
                    L.same("sam variants --aggregate (%s)" % suffix, argv + ["--aggregate"], dict(base, aggregate=True, threshold=0.0), files=[sp, rp, ap])
                    if k == 0:
                        L.spelled("sam variants", argv, ["--append-snps", "--aggregate"], files=[sp, rp, ap])
        return L.runs
    finally:
        L.close()


def annotation_text_layer(ctx):
    """The text of a GFF3 annotation may be laid out differently without changing what it says: the ##FASTA sequence on
    one line or wrapped, CRLF line ends, a long free-text attribute on a row, further attributes, attributes in another
    order.  `variants` must print the same bytes for every such spelling (genome of 70,000 bases, two genes far apart)."""
    L = Layer(ctx)
    try:
        if L.failed:
            return 0
        rng = ctx.rng
        n = 70000
        g = [rng.choice("ACGT") for _ in range(n)]
        cds = "ATG" + "".join(rng.choice(["GCT", "AAA", "CTG", "GAT"]) for _ in range(5)) + "TAA"
        a, b = 10, 69000
        g[a - 1:a - 1 + len(cds)] = list(cds)
        g[b - 1:b - 1 + len(cds)] = list(cds)
        g = "".join(g)
        q = list(g)
        for p in (a + 4, b + 4, 35000):
            q[p - 1] = {"A": "C", "C": "G", "G": "T", "T": "A"}[q[p - 1]]
        msa = L.W("big.fasta", (">ref\n%s\n>q\n%s\n" % (g, "".join(q))).encode())
        wrap = "\n".join(g[i:i + 60] for i in range(0, n, 60))
        def gff(attr1="ID=c1;Name=gA", attr2="ID=c2;Name=gB", seq=wrap, eol="\n"):
            rows = ["##gff-version 3", "##sequence-region ref 1 %d" % n,
                    "\t".join(["ref", ".", "CDS", str(a), str(a + len(cds) - 1), ".", "+", "0", attr1]),
                    "\t".join(["ref", ".", "CDS", str(b), str(b + len(cds) - 1), ".", "+", "0", attr2]),
                    "##FASTA", ">ref", seq]
            return (eol.join(rows) + eol).encode()
        base = L.W("base.gff", gff())
        variants = {
            "the ##FASTA sequence on one line": gff(seq=g),
            "CRLF line ends": gff(eol="\r\n"),
            "a 70,000-character Note attribute on the first row": gff(attr1="ID=c1;Name=gA;Note=" + "x" * 70000),
            "further attributes, Name before ID": gff(attr1="Name=gA;gbkey=CDS;ID=c1;product=p", attr2="Dbxref=X:1;Name=gB;ID=c2"),
        }
        for k, (what, data) in enumerate(variants.items()):
            p = L.W("v%d.gff" % k, data)
            for extra in ([["--append-snps"]] if k == 0 else [[]]):
                L.equal_runs("variants with the same GFF3 annotation written differently (%s) must print the same" % what,
                             ["variants", "--msa", msa, "-r", "ref", "-a", base] + extra,
                             ["variants", "--msa", msa, "-r", "ref", "-a", p] + extra)
            L.equal_runs("variants taking the reference from the same GFF3 annotation written differently (%s)" % what,
                         ["variants", "--msa", msa, "-a", base], ["variants", "--msa", msa, "-a", p])
        r = cm.run_binary(L.binp, ["variants", "--msa", msa, "-r", "ref", "-a", base], timeout=60)
        if r[0] != "ok" or b"aa:gA:" not in r[2] or b"aa:gB:" not in r[2]:
            cm.violation(ctx, "failing-input", {"what": "variants on the 70,000-base genome does not report the two amino-acid changes",
                                                "out": r[2].decode("latin1")[:500], "err": r[3].decode("latin1")[-300:]})
        return L.runs
    finally:
        L.close()


def threshold_layer(ctx):
    """--aggregate --threshold T through the built binary, for T equal to an occurring frequency k/10 (0.1, 0.2, 0.3, 0.6, 0.7
    are not exactly representable; a flag parsed at lower precision moves them) and a few others: the binary's bytes must
    be the library entry point's at the same float64 threshold, for snps, variants and sam variants."""
    L = Layer(ctx)
    rng = ctx.rng
    try:
        if L.failed:
            return 0
        Lg = 30
        feats = []
        while not feats:
            genome = gen.rand_seq(rng, Lg)
            feats = anno.random_features(rng, Lg, max_feats=2, mod3_segments=True)
            genome, feats = anno.patch_stops(rng, genome, feats)
        # ten queries; mutation j is carried by the first j of them: frequencies 0.1 .. 1.0
        sites = rng.sample(range(Lg), 8)
        carriers = [1, 2, 3, 5, 6, 7, 9, 10]
        rows = []
        for i in range(10):
            t = list(genome)
            for site, k in zip(sites, carriers):
                if i < k:
                    t[site] = {"A": "C", "C": "G", "G": "T", "T": "A"}[t[site]]
            rows.append("".join(t))
        msa = gen.layout(rng, [("REF", genome)] + [("s%d" % i, r) for i, r in enumerate(rows)], "plain")
        aln = gen.layout(rng, [("s%d" % i, r) for i, r in enumerate(rows)], "plain")
        refb = gen.layout(rng, [("REF", genome)], "plain")
        samb = samgen.render_sam("REF", Lg, [{"name": "s%d" % i, "flag": 0, "pos": 0, "cigar": [("M", Lg)], "seq": r} for i, r in enumerate(rows)])
        annob = anno.render_gff(genome, feats)
        mp, alp, rp, sp, ap = L.W("m.fasta", msa), L.W("aln.fasta", aln), L.W("ref.fasta", refb), L.W("a.sam", samb), L.W("a.gff", annob)
        for thr in (0.1, 0.2, 0.3, 0.5, 0.6, 0.7, 0.9, 0.05, 0.30000000000000004, 1.0):
            t = repr(thr)
            L.same("snps --aggregate --threshold %s" % t, ["snps", "-r", rp, "-q", alp, "--aggregate", "--threshold", t],
                   {"op": "snps", "ref": cm.b64(refb), "aln": cm.b64(aln), "hard": False, "aggregate": True, "threshold": thr}, files=[rp, alp])
            L.same("variants --aggregate --threshold %s" % t, ["variants", "--msa", mp, "-r", "REF", "-a", ap, "--aggregate", "--threshold", t],
                   {"op": "variants", "msa": cm.b64(msa), "refid": "REF", "anno": cm.b64(annob), "suffix": "gff", "start": -1, "end": -1,
                    "append_snps": False, "threads": 2, "aggregate": True, "threshold": thr}, files=[mp, ap])
            L.same("sam variants --aggregate --threshold %s" % t, ["sam", "variants", "-s", sp, "-r", rp, "-a", ap, "--aggregate", "--threshold", t],
                   {"op": "samvariants", "sam": cm.b64(samb), "ref": cm.b64(refb), "anno": cm.b64(annob), "suffix": "gff", "ref_from_file": True,
                    "start": -1, "end": -1, "append_snps": False, "aggregate": True, "threshold": thr, "threads": 2}, files=[sp, rp, ap])
        return L.runs
    finally:
        L.close()
