"""GenBank location strings (pkg/genbank/location.go) against the byte-level Coq model LocationModel.v and against the
location AST: GetPositions and IsReverse on renderings of the AST (a..b, join(), complement(), complement(join()),
join(complement(),...); segments ascending or rotated) and on a malformed stream (deletions, insertions, substitutions,
mixed and deeper nestings, empty string).  Numbers stay below 400 so that no run allocates much."""
import common as cm

ALPH = "0123456789.,()joincmplet+-< >x"


def rngs(rng):
    a = rng.randint(0, 300)
    b = a + rng.randint(-2, 30)
    return (a, max(b, 0))


def wellformed(rng):
    k = rng.randint(0, 4)
    n = rng.randint(1, 4)
    segs = [rngs(rng) for _ in range(n)]
    txt = ["%d..%d" % s for s in segs]
    def span(s):
        return list(range(s[0], s[1] + 1))
    if k == 0:
        return txt[0], span(segs[0]), False
    if k == 1:
        return "join(" + ",".join(txt) + ")", [p for s in segs for p in span(s)], False
    if k == 2:
        return "complement(" + txt[0] + ")", span(segs[0])[::-1], True
    if k == 3:
        return "complement(join(" + ",".join(txt) + "))", [p for s in segs for p in span(s)][::-1], True
    return "join(" + ",".join("complement(%s)" % t for t in txt) + ")", [p for s in segs for p in span(s)[::-1]], True


def mutate(rng, s):
    s = list(s)
    for _ in range(rng.randint(1, 3)):
        k = rng.random()
        if k < 0.35 and s:
            del s[rng.randrange(len(s))]
        elif k < 0.7:
            s.insert(rng.randint(0, len(s)), rng.choice(ALPH))
        elif s:
            s[rng.randrange(len(s))] = rng.choice(ALPH)
    s = "".join(s)
    import re
    return s if all(len(m) <= 3 for m in re.findall(r"\d+", s)) else None      # keep every number small


def nested(rng):
    parts = []
    for _ in range(rng.randint(1, 3)):
        k = rng.randint(0, 3)
        r = lambda: "%d..%d" % rngs(rng)
        parts.append([r(), "complement(%s)" % r(), "join(%s,%s)" % (r(), r()), "complement(join(%s,%s))" % (r(), r())][k])
    return rng.choice(["join(%s)", "complement(%s)", "%s", "order(%s)"]) % ",".join(parts)


def run(ctx, n):
    rng = ctx.rng
    items = []          # (string, expected positions or None, expected reverse or None)
    for _ in range(n):
        r = rng.random()
        if r < 0.45:
            items.append(wellformed(rng))
        elif r < 0.8:
            s = mutate(rng, wellformed(rng)[0])
            if s is not None:
                items.append((s, None, None))
        elif r < 0.97:
            items.append((nested(rng), None, None))
        else:
            items.append(("", None, None))
    cases = []
    for s, ps, rv in items:
        for what in ("positions", "reverse"):
            cases.append({"id": len(cases), "op": "location", "loc": cm.b64(s.encode()), "what": what})
    meta = [(s, ps, rv, what) for s, ps, rv in items for what in ("positions", "reverse")]
    obs = cm.go_run(cases, ctx.log)
    bad_oracle, classes = [], {}
    for c, (s, ps, rv, what) in zip(cases, meta):
        o = obs[c["id"]]
        classes[o["status"]] = classes.get(o["status"], 0) + 1
        if ps is None:
            continue
        want = ",".join(map(str, ps)) if what == "positions" else ("true" if rv else "false")
        got = cm.unb64(o["out"]).decode() if o["status"] == "ok" else "<%s>" % o["status"]
        if got != want:
            bad_oracle.append({"location": s, "asked": what, "implementation": got[:300], "expected_from_the_AST": want[:300]})
    verdicts = cm.coq_verdicts(ctx.pid, ["Base", "FastaModel", "Harness", "LocationModel", "Check_Loc"], "check_loc",
                               [(c["id"], "(%s, %s, %s)" % (cm.cbool(m[3] == "reverse"), cm.cbytes(m[0].encode()), cm.cgores(obs[c["id"]])))
                                for c, m in zip(cases, meta)], ctx.log, tag="loc")
    bad_model = [{"location": meta[i][0], "asked": meta[i][3], "implementation": obs[i]["status"] + ":" + cm.unb64(obs[i].get("out", "")).decode("latin1")[:200]}
                 for i, v in verdicts.items() if v != 0]
    for b in bad_oracle[:5]:
        cm.violation(ctx, "failing-input", dict(b, what="GenBank location string: GetPositions / IsReverse differ from the positions and strand the location denotes"))
    if bad_model and not bad_oracle:
        for b in bad_model[:3]:
            cm.violation(ctx, "model-mismatch", dict(b, what="LocationModel.v and pkg/genbank/location.go disagree on this location string; no rendering of a location AST was read wrongly"),
                         no_failing_input=True)
    return {"location_strings": len(items), "location_outcomes": classes, "location_model_mismatches": len(bad_model)}
