#!/bin/sh
# Runs every claimed check (quick tier by default) on the current /repo tree, validates evidence files.
# usage: ./run_all.sh [quick|thorough]
tier=${1:-quick}
cd "$(dirname "$0")"
git -C /repo status --short | grep -v '^??' | head -3
fail=0
for p in $(python3 -c "import json; print(' '.join(c['property_id'] for c in json.load(open('MANIFEST.json'))['checks']))"); do
  s=$(date +%s)
  ./check $p --tier $tier > work/runall_$p.out 2>&1
  rc=$?
  e=$(date +%s)
  echo "$p exit=$rc $((e-s))s $(grep -c '^VIOLATION' work/runall_$p.out) violations"
  [ $rc -ne 0 ] && fail=1
done
python3-vt - <<'PY'
import json, jsonschema, glob
sch = json.load(open('/root/.vp/EVIDENCE.schema.json'))
man = json.load(open('MANIFEST.json'))
jsonschema.validate(man, json.load(open('/root/.vp/MANIFEST.schema.json')))
for c in man['checks']:
    e = json.load(open(c['evidence_file'].replace('/verif/', '', 1) if c['evidence_file'].startswith('/verif/') else c['evidence_file']))
    jsonschema.validate(e, sch)
    cov = e['coverage']
    assert cov['discharged'] == cov['obligations'] >= 1, (c['property_id'], cov['discharged'], cov['obligations'])
    assert e['violations'] == 0, c['property_id']
print('manifest and evidence valid')
PY
[ $? -ne 0 ] && fail=1
exit $fail
