#!/bin/sh
# usage: seedrun.sh <patch.diff> <check ids...>   - apply the patch to /repo, run the checks (quick), undo the patch
patch=$1; shift
cd /repo || exit 2
git status --short | grep -v '^??' | grep . && { echo "repo not clean"; exit 2; }
git apply "$patch" || { echo "patch does not apply"; exit 2; }
cd /verif
for p in "$@"; do
  out=$(./check $p --tier ${TIER:-quick} 2>/dev/null)
  rc=$?
  n=$(echo "$out" | grep -c '^VIOLATION')
  nf=$(echo "$out" | grep -c 'no-failing-input-found')
  echo "$p exit=$rc violations=$n (no-failing-input=$nf)"
done
git -C /repo checkout -- .
rm -rf /verif/replays.last; mv /verif/replays /verif/replays.last 2>/dev/null
exit 0
