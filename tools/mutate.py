#!/usr/bin/env python3
"""Mutation testing of the checks (machinery validation, not part of any registered check).

  mutate.py gen  N SEED          -> /tmp/mut/mutants.json  (N random single-token mutants of the anchored sources)
  mutate.py filter [WORKERS]     -> keeps the mutants that build and pass the pinned suite (scratch worktrees under /tmp/mut)
  mutate.py run                  -> applies each survivor to /repo, runs the mapped checks (quick tier), reverts; results in
                                    /tmp/mut/results.json; `mutate.py report` prints the undetected ones.
Nothing here is needed by the registered checks; scratch state lives under /tmp/mut and is removed by `mutate.py clean`."""
import json, os, random, re, subprocess, sys, shutil
from concurrent.futures import ThreadPoolExecutor

REPO = "/repo"
MUT = "/tmp/mut"
ENV = dict(os.environ, GOFLAGS="-mod=mod", GOPROXY="off", GOSUMDB="off", GOTOOLCHAIN="local")
FILES = {
    "pkg/sam/sam.go": "C01 C02 C11 C12", "pkg/sam/toma.go": "C01 C15 C18 C12 C19", "pkg/sam/topa.go": "C02 C15 C11 C18 C12 C19",
    "pkg/sam/cigar.go": "C01 C02 C11", "pkg/sam/variants.go": "C11 C05 C13 C18 C12",
    "pkg/variants/variants.go": "C04 C05 C13 C14 C15 C11 C12 C16 C18 C19", "pkg/variants/pairwise.go": "C05 C04 C11",
    "pkg/updown/topranking.go": "C08 C09 C12 C19", "pkg/updown/input.go": "C10 C09 C08 C12 C18", "pkg/updown/list.go": "C10 C19 C12",
    "pkg/closest/closest.go": "C06 C07 C12 C19", "pkg/closest/closest_n.go": "C06 C07 C12 C19",
    "pkg/snps/snps.go": "C03 C13 C12 C19", "pkg/fastaio/fastaio.go": "C16 C18 C03 C07 C10",
    "pkg/alphabet/alphabet.go": "C17 C04", "pkg/encoding/encoding.go": "C03 C17 C07 C16",
    "cmd/samtoma.go": "C15 C18", "cmd/samtopa.go": "C15 C18", "cmd/variants.go": "C15 C18 C14", "cmd/samvariants.go": "C15 C18 C11",
    "cmd/closest.go": "C06 C18", "cmd/snps.go": "C03 C18", "cmd/updowntopranking.go": "C08 C18", "cmd/updownlist.go": "C10 C18",
}
OPS = [(r" < ", " <= "), (r" <= ", " < "), (r" > ", " >= "), (r" >= ", " > "), (r" == ", " != "), (r" != ", " == "),
       (r" && ", " || "), (r" \|\| ", " && "), (r"\+ 1\b", "- 1"), (r"- 1\b", "+ 1"), (r"\+ 1\b", ""), (r"- 1\b", ""),
       (r"sort\.SliceStable", "sort.Slice"), (r"\bcontinue\b", "break"), (r"\bbreak\b", "continue"),
       (r"\btrue\b", "false"), (r"\bfalse\b", "true"), (r"\+\+", "--"), (r"\+= ", "-= "), (r"\[0\]", "[1]"), (r"\b0\b", "1"), (r"\b1\b", "0")]


def sh(cmd, cwd, timeout=900):
    try:
        p = subprocess.run(cmd, cwd=cwd, env=ENV, stdout=subprocess.PIPE, stderr=subprocess.STDOUT, timeout=timeout, shell=isinstance(cmd, str))
        return p.returncode, p.stdout.decode("latin1")
    except subprocess.TimeoutExpired:
        return 124, "timeout"


def gen(n, seed):
    rng = random.Random(seed)
    cands = []
    for f in FILES:
        lines = open(os.path.join(REPO, f)).read().split("\n")
        for ln, l in enumerate(lines):
            st = l.strip()
            if not st or st.startswith("//") or st.startswith("import") or "errors.New" in l or "Stderr" in l or st.startswith("package"):
                continue
            code = l.split("//")[0]
            for k, (pat, rep) in enumerate(OPS):
                for m in re.finditer(pat, code):
                    if '"' in code[:m.start()] and code[:m.start()].count('"') % 2 == 1:
                        continue        # inside a string literal
                    cands.append({"file": f, "line": ln + 1, "op": k, "start": m.start(), "end": m.end(), "rep": rep, "old": l})
    rng.shuffle(cands)
    os.makedirs(MUT, exist_ok=True)
    json.dump(cands[:n], open(os.path.join(MUT, "mutants.json"), "w"), indent=0)
    print("candidates %d, sampled %d" % (len(cands), min(n, len(cands))))


def apply(root, m):
    p = os.path.join(root, m["file"])
    lines = open(p).read().split("\n")
    l = lines[m["line"] - 1]
    assert l == m["old"], "source changed"
    lines[m["line"] - 1] = l[:m["start"]] + m["rep"] + l[m["end"]:]
    open(p, "w").write("\n".join(lines))


def worker_filter(args):
    wid, ms = args
    wt = os.path.join(MUT, "w%d" % wid)
    if not os.path.exists(wt):
        subprocess.run(["git", "-C", REPO, "worktree", "add", "--detach", "-q", wt, "HEAD"], check=True)
    out = []
    for m in ms:
        sh("git checkout -q -- .", wt)
        try:
            apply(wt, m)
        except AssertionError:
            continue
        rc, o = sh("go build ./...", wt, 300)
        if rc != 0:
            m["fate"] = "no-build"
        else:
            rc, o = sh("go test -vet=off -count=1 ./pkg/... ./cmd/... .", wt, 600)
            m["fate"] = "survives-suite" if rc == 0 else "killed-by-suite"
        out.append(m)
    sh("git checkout -q -- .", wt)
    return out


def filt(workers):
    ms = json.load(open(os.path.join(MUT, "mutants.json")))
    parts = [(i, ms[i::workers]) for i in range(workers)]
    with ThreadPoolExecutor(workers) as ex:
        res = [m for part in ex.map(worker_filter, parts) for m in part]
    json.dump(res, open(os.path.join(MUT, "filtered.json"), "w"), indent=0)
    from collections import Counter
    print(Counter(m["fate"] for m in res))


def run():
    ms = [m for m in json.load(open(os.path.join(MUT, "filtered.json"))) if m["fate"] == "survives-suite"]
    done = {}
    rp = os.path.join(MUT, "results.json")
    if os.path.exists(rp):
        done = {(r["file"], r["line"], r["op"], r["start"]): r for r in json.load(open(rp))}
    res = list(done.values())
    for k, m in enumerate(ms):
        key = (m["file"], m["line"], m["op"], m["start"])
        if key in done:
            continue
        rc, o = sh("git status --short | grep -v '^??'", REPO)
        if o.strip():
            print("repo not clean", o); sys.exit(2)
        apply(REPO, m)
        m["checks"] = {}
        for pid in FILES[m["file"]].split():
            rc, o = sh(["./check", pid], "/verif", 900)
            m["checks"][pid] = rc
            if rc != 0:
                break           # detected: no need to run the rest
        sh("git checkout -q -- .", REPO)
        m["detected"] = any(v != 0 for v in m["checks"].values())
        res.append(m)
        json.dump(res, open(rp, "w"), indent=0)
        print("%d/%d %s:%d %r -> %r  %s" % (k + 1, len(ms), m["file"], m["line"], m["old"].strip()[m["start"] - (len(m["old"]) - len(m["old"].lstrip())):][:25], m["rep"],
                                            "DETECTED by " + [p for p, v in m["checks"].items() if v][0] if m["detected"] else "not detected"), flush=True)


def report():
    res = json.load(open(os.path.join(MUT, "results.json")))
    det = [m for m in res if m["detected"]]
    print("survivors of the suite: %d, detected by the checks: %d, not detected: %d" % (len(res), len(det), len(res) - len(det)))
    for m in res:
        if not m["detected"]:
            l = m["old"]
            print("%s:%d  %s   [%r -> %r]" % (m["file"], m["line"], l.strip(), l[m["start"]:m["end"]], m["rep"]))


def clean():
    for d in os.listdir(MUT) if os.path.exists(MUT) else []:
        if d.startswith("w"):
            subprocess.run(["git", "-C", REPO, "worktree", "remove", "--force", os.path.join(MUT, d)])
    subprocess.run(["git", "-C", REPO, "worktree", "prune"])


if __name__ == "__main__":
    c = sys.argv[1]
    if c == "gen":
        gen(int(sys.argv[2]), int(sys.argv[3]))
    elif c == "filter":
        filt(int(sys.argv[2]) if len(sys.argv) > 2 else 8)
    elif c == "run":
        run()
    elif c == "report":
        report()
    elif c == "clean":
        clean()
